#!/venv/bin/python
"""Apply a seeded change to /repo, run the given checks (quick tier) against it, undo it, print a summary.

usage: tools/seedtest.py <patch.diff> C01 [C07 ...] [--tier quick|thorough] [--seed N]
The patch is applied with `git -C /repo apply` and always reverted (`git -C /repo apply -R`), also on error.
"""
import json
import os
import subprocess
import sys
import time


def main():
    args = sys.argv[1:]
    tier, seed = "quick", "0"
    if "--tier" in args:
        i = args.index("--tier")
        tier = args[i + 1]
        del args[i:i + 2]
    if "--seed" in args:
        i = args.index("--seed")
        seed = args[i + 1]
        del args[i:i + 2]
    patch, checks = args[0], args[1:]
    st = subprocess.run(["git", "-C", "/repo", "status", "--porcelain"], capture_output=True, text=True).stdout.strip()
    if st:
        print("refusing: /repo has uncommitted changes:\n" + st)
        return 2
    r = subprocess.run(["git", "-C", "/repo", "apply", os.path.abspath(patch)], capture_output=True, text=True)
    if r.returncode:
        print("patch does not apply:", r.stderr)
        return 2
    out = {}
    try:
        for c in checks:
            t = time.time()
            p = subprocess.run(["./check", c, "--tier", tier], cwd="/verif", capture_output=True, text=True,
                               env=dict(os.environ, VERIF_SEED=seed))
            lines = [l for l in p.stdout.splitlines() if l.startswith(("VIOLATION", "  signature", "INCONCLUSIVE", c + " tier"))]
            out[c] = {"rc": p.returncode, "wall": round(time.time() - t, 1), "lines": [l[:400] for l in lines[:12]]}
            print(f"== {c}: rc={p.returncode} ({out[c]['wall']} s)")
            for l in lines[:12]:
                print("   " + l[:300])
    finally:
        subprocess.run(["git", "-C", "/repo", "apply", "-R", os.path.abspath(patch)], check=False)
        st = subprocess.run(["git", "-C", "/repo", "status", "--porcelain"], capture_output=True, text=True).stdout.strip()
        if st:
            print("WARNING: /repo not clean after revert:\n" + st)
            subprocess.run(["git", "-C", "/repo", "checkout", "--", "."], check=False)
    print(json.dumps({c: v["rc"] for c, v in out.items()}))
    return 0


if __name__ == "__main__":
    sys.exit(main())
