#!/venv/bin/python
"""Confirm a seeded change produced by a sub-agent in /tmp/wt-<ID> and copy it to /verif/seeded/<ID>/.

Confirms: patch applies to a clean checkout of /repo HEAD; demo exits 0 without and non-zero with the change;
the repository's own test suite has exactly the baseline failures with the change. Writes meta.json.
usage: tools/verify_seed.py C05 [--skip-suite]
"""
import json
import os
import shutil
import subprocess
import sys

BASELINE_FAIL = {
    "tests/test_context.py::TestContext::test_register_all_no_defaults_and_allowed",
    "tests/test_context.py::TestContext::test_register_no_defaults",
    "tests/test_context.py::TestContext::test_register_no_defaults_but_allowed",
    "tests/test_context.py::TestContext::test_register_with_defaults_and_allowed",
    "tests/test_context.py::TestContext::test_scan_runs__provided_dtypes__available_for_run",
    "tests/test_core.py::test_datadirectory_deleted",
    "tests/test_core.py::test_filestore[False-1-single_thread]",
    "tests/test_core.py::test_filestore[False-1-threaded_mailbox]",
    "tests/test_core.py::test_filestore[True-2-threaded_mailbox]",
    "tests/test_core.py::test_fuzzy_matching",
    "tests/test_superruns.py::TestSuperRuns::test_select_runs_with_superruns",
    "tests/test_utils.py::TestMultiRun::test_multi_run_memory_profile",
}


def sh(cmd, cwd, timeout=3600, env=None):
    return subprocess.run(cmd, cwd=cwd, capture_output=True, text=True, timeout=timeout, env=env)


def main():
    pid = sys.argv[1]
    skip_suite = "--skip-suite" in sys.argv
    # --round 2: worktree /tmp/wt2-<ID>, kept as /verif/seeded/<ID>-2
    rnd = sys.argv[sys.argv.index("--round") + 1] if "--round" in sys.argv else "1"
    wt = f"/tmp/wt-{pid}" if rnd == "1" else f"/tmp/wt{rnd}-{pid}"
    sd = os.path.join(wt, "seeded")
    meta = {"property": pid, "worktree": wt}
    if not os.path.exists(os.path.join(sd, "patch.diff")):
        print("no seeded/patch.diff in", wt)
        return 2
    # a clean scratch worktree of /repo HEAD
    scratch = f"/tmp/verify{rnd}-{pid}"
    subprocess.run(["git", "-C", "/repo", "worktree", "remove", "--force", scratch], capture_output=True)
    r = sh(["git", "-C", "/repo", "worktree", "add", "--detach", scratch, "HEAD"], "/")
    if r.returncode:
        print(r.stderr)
        return 2
    try:
        env = dict(os.environ, PYTHONPATH=scratch, NUMBA_CACHE_DIR=os.path.join(scratch, ".nbcache"))
        demo = os.path.join(sd, "demo.py")
        shutil.copytree(sd, os.path.join(scratch, "seeded"))
        r0 = sh(["/venv/bin/python", "seeded/demo.py"], scratch, 1800, env)
        meta["demo_without_change_rc"] = r0.returncode
        ap = sh(["git", "apply", os.path.join(sd, "patch.diff")], scratch)
        meta["patch_applies"] = ap.returncode == 0
        if ap.returncode:
            print("patch does not apply:", ap.stderr[:500])
            json.dump(meta, sys.stdout, indent=1)
            return 1
        r1 = sh(["/venv/bin/python", "seeded/demo.py"], scratch, 1800, env)
        meta["demo_with_change_rc"] = r1.returncode
        meta["demo_with_change_tail"] = (r1.stdout + r1.stderr)[-600:]
        if not skip_suite:
            rs = sh(["/venv/bin/python", "-m", "pytest", "-q", "-p", "no:cacheprovider", "--timeout=900",
                     "--continue-on-collection-errors", "-rf"], scratch, 3600, env)
            failed = {l.split(" ")[1] for l in rs.stdout.splitlines() if l.startswith("FAILED ")}
            failed = {f.split(" - ")[0] for f in failed}
            meta["suite_tail"] = rs.stdout.strip().splitlines()[-1] if rs.stdout.strip() else ""
            meta["suite_new_failures"] = sorted(failed - BASELINE_FAIL)
            meta["suite_ok"] = not (failed - BASELINE_FAIL) and "passed" in meta["suite_tail"]
        meta["confirmed"] = bool(meta["demo_without_change_rc"] == 0 and meta["demo_with_change_rc"] != 0
                                 and (skip_suite or meta.get("suite_ok")))
    finally:
        subprocess.run(["git", "-C", "/repo", "worktree", "remove", "--force", scratch], capture_output=True)
        shutil.rmtree(scratch, ignore_errors=True)
    dest = f"/verif/seeded/{pid}" if rnd == "1" else f"/verif/seeded/{pid}-{rnd}"
    if meta["confirmed"]:
        os.makedirs(dest, exist_ok=True)
        for f in ("patch.diff", "demo.py", "NOTES.md"):
            if os.path.exists(os.path.join(sd, f)):
                shutil.copy(os.path.join(sd, f), os.path.join(dest, f))
        with open(os.path.join(dest, "meta.json"), "w") as f:
            json.dump(meta, f, indent=1)
    print(json.dumps(meta, indent=1))
    return 0 if meta["confirmed"] else 1


if __name__ == "__main__":
    sys.exit(main())
