"""F31 demonstration: exits 1 on strax before commit 1d4e45b (mptop stored but unloadable), 0 afterwards.
run: PYTHONPATH=/verif /venv/bin/python tools/demos/f31_inlined_saver_failed_future.py"""
import os, sys, shutil, tempfile
sys.path.insert(0, "/verif")
import strax
from vf.harness import mp_plugins as mp

ROWS = ((0, 500, 1), (800, 1200, 2), (3000, 3500, 3), (3600, 4000, 4), (6000, 6400, 5), (9000, 9300, 6))
CUTS = (0, 2000, 5000, 10000)

def main():
    import multiprocessing as _mp
    _mp.set_start_method("forkserver", force=True)
    _mp.set_forkserver_preload(["strax", "vf.harness.mp_plugins"])
    d = tempfile.mkdtemp(prefix="f31-")
    marker = d + ".fired"
    fault = {"dtype": "mptop", "chunk": 1, "op": "open:w", "mode": "raise", "marker": marker}
    pace = {"slow_chunk": 0, "slow_by": 2.0, "late_chunk": 2, "late_by": 1.0}
    st = strax.Context(storage=[strax.DataDirectory(d)], register=mp.ALL_INLINE,
                       config=dict(mp_rows=ROWS, mp_cuts=CUTS, mp_fault=fault, mp_pace=pace),
                       allow_multiprocess=True, allow_lazy=False, max_messages=10, timeout=60, processors=["threaded_mailbox"])
    try:
        st.make("0", "mptop", progress_bar=False, max_workers=2)
        print("make returned normally")
    except Exception as e:
        print("make raised", repr(e)[:200])
    print("fault fired:", os.path.exists(marker))
    st2 = strax.Context(storage=[strax.DataDirectory(d)], register=mp.ALL_INLINE, config=dict(mp_rows=ROWS, mp_cuts=CUTS),
                        forbid_creation_of=("*",))
    rc = 0
    for dt in ("mpsrc", "mprow", "mpma", "mpmb", "mptop"):
        stored = st2.is_stored("0", dt)
        try:
            n = len(st2.get_array("0", dt, progress_bar=False)) if stored else None
            print(dt, "stored" if stored else "not stored", n)
        except Exception as e:
            print(dt, "STORED BUT UNLOADABLE:", repr(e)[:200]); rc = 1
    shutil.rmtree(d, ignore_errors=True)
    if os.path.exists(marker): os.remove(marker)
    return rc

if __name__ == "__main__":
    sys.exit(main())
