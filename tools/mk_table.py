#!/venv/bin/python
"""Print the per-check volume table of DESIGN.md section 8.3 from the evidence files of the last runs."""
import glob
import json

KEYS = {
    "C01": ["requests_completed", "reloads_checked", "law_chunk_init", "law_split", "mp_runs"],
    "C02": ["histories", "key_tables_compared", "data_requests_checked", "fuzzy_checks"],
    "C03": ["round_trips", "scheduled_pool_saves", "distinct_pool_schedules", "forked_saver_trips", "concurrent_big_loads", "failed_write_trips"],
    "C04": ["faults_fired", "exception_faults", "death_faults", "midwrite_faults", "inline_faults_fired", "paced_inline_faults_fired", "double_faults"],
    "C05": ["scheduled_runs", "distinct_interleavings", "scheduling_points", "systematic_runs"],
    "C06": ["scheduled_runs", "faults_delivered", "closes_checked", "real_thread_runs", "process_pool_faults_delivered"],
    "C07": ["split", "split_multirun", "rejections", "rechunk_streams", "concat_three_pieces"],
    "C08": ["runs_completed", "compute_calls", "mp_join_cases"],
    "C09": [],
    "C10": ["queries", "computed_partial_queries", "independent_layout_pairs", "listing_checks"],
    "C11": ["requests", "multi_partial_cases", "pre_call_cases", "inlined_saver_frontends"],
    "C12": ["faults_reached", "rejected", "storage_checks"],
    "C13": ["quiescent_runs", "lazy_demand_checks", "scheduling_points"],
    "C14": ["superrun_requests", "chunks_bookkept", "stored_superruns_reread", "redefinitions_checked", "time_range_reads"],
    "C15": ["parallel_calls", "multi_target_calls", "failing_run_calls", "yield_injections", "prestored_big_calls"],
    "C16": ["copies", "rechunker_runs", "scheduled_rechunker_runs", "rechunk_on_load_runs", "per_chunk_merges", "per_chunk_refusals"],
    "C17": [],
    "C18": ["find_hits", "cut_outside_hits", "record_links", "baseline"],
    "C19": ["find_peaks", "sum_waveform", "sum_waveform_free_windows", "merge_peaks", "split_peaks", "split_child_areas"],
}
print("| id | tier | evaluations | distinct non-trivial | selected monitor counters | wall (16 cores) |")
print("|---|---|---|---|---|---|")
for f in sorted(glob.glob("/verif/evidence/C*.json")):
    e = json.load(open(f))
    pid = e["property_id"]
    cov = e["coverage"]
    cnt = cov.get("counters", {})
    sel = ", ".join(f"{k} {cnt[k]}" for k in KEYS.get(pid, []) if k in cnt)
    print(f"| {pid} | {e['tier']} | {cov['evaluations']} | {cov['distinct_nontrivial']} | {sel} | {e['wall_s']:.0f} s |")
