"""Worker side of the runner.

  python -m vf.worker PID WORK TIMEOUT BC warm        single writer of the shared numba cache
  python -m vf.worker PID WORK TIMEOUT BC zygote N    import + prefork once, then fork N unit workers

Memory-management system calls (page faults, mmap) scale badly across processes in
this sandbox, which makes N independent interpreters each importing strax and
JIT-compiling the same functions several times slower than one. The zygote therefore
imports the check module and compiles what every unit needs once, then forks the
workers, which inherit the compiled code. Forked workers never write to the numba
cache (save_overload is a no-op there), so the on-disk cache keeps a single writer.

Units are claimed through O_EXCL files; results are written to WORK/out/<k>.json. A
child that dies inside a unit leaves {"crashed": rc} for that unit.
"""
import faulthandler
import importlib
import json
import os
import shutil
import sys
import time
import traceback

from vf import common


def load_units(work):
    with open(os.path.join(work, "units.json")) as f:
        return json.load(f)


def write_result(work, k, r):
    tmp = os.path.join(work, "out", f"{k}.json.tmp")
    with open(tmp, "w") as f:
        f.write(common.canon(r))
    os.rename(tmp, os.path.join(work, "out", f"{k}.json"))


def child_loop(pid, work, unit_timeout, want_bc, m, units):
    try:
        import numba.core.caching as nc

        nc.Cache.save_overload = lambda self, sig, data: None
    except Exception:  # noqa: BLE001
        pass
    faulthandler.enable()
    me = str(os.getpid())
    for k, unit in enumerate(units):
        if bool(unit.get("boundscheck")) != want_bc:
            continue
        claim = os.path.join(work, "claim", str(k))
        try:
            fd = os.open(claim, os.O_CREAT | os.O_EXCL | os.O_WRONLY)
        except FileExistsError:
            continue
        os.write(fd, me.encode())
        os.close(fd)
        faulthandler.dump_traceback_later(unit_timeout, exit=True)
        try:
            r = m.run_unit(unit)
        except BaseException as e:  # harness error: inconclusive, never a violation
            r = {
                "evaluations": 0,
                "inconclusive": [
                    f"harness error in unit {unit.get('name')}: "
                    + "".join(traceback.format_exception(type(e), e, e.__traceback__))[-1500:]
                ],
            }
        faulthandler.cancel_dump_traceback_later()
        write_result(work, k, r)
    sys.stdout.flush()
    sys.stderr.flush()
    os._exit(0)


def unclaimed(work, units, want_bc):
    claimed = set(os.listdir(os.path.join(work, "claim")))
    return [k for k, u in enumerate(units) if bool(u.get("boundscheck")) == want_bc and str(k) not in claimed]


def main():
    pid, work, unit_timeout = sys.argv[1], sys.argv[2], float(sys.argv[3])
    want_bc = sys.argv[4] == "1"
    mode = sys.argv[5]
    if mode == "warm":
        with common.cache_lock(want_bc, exclusive=True):
            os.environ["VERIF_NUMBA_PRIVATE"] = common.shared_cache_dir(want_bc)
            common.setup_env(boundscheck=want_bc, cache_dir=common.shared_cache_dir(want_bc))
            faulthandler.enable()
            faulthandler.dump_traceback_later(unit_timeout, exit=True)
            m = importlib.import_module("vf.checks." + pid.lower())
            if hasattr(m, "warm"):
                m.warm()
        os._exit(0)

    n = int(sys.argv[6])
    private = os.path.join(work, f"nb-{int(want_bc)}")
    common.copy_shared_cache(want_bc, private)
    os.environ["VERIF_NUMBA_PRIVATE"] = private
    common.setup_env(boundscheck=want_bc, cache_dir=private)
    units = load_units(work)
    m = importlib.import_module("vf.checks." + pid.lower())
    if hasattr(m, "prefork"):
        try:
            m.prefork()
        except Exception:  # noqa: BLE001
            traceback.print_exc()
    sys.stdout.flush()
    sys.stderr.flush()
    children = {}
    respawns = 0

    def spawn():
        c = os.fork()
        if c == 0:
            child_loop(pid, work, unit_timeout, want_bc, m, units)
            os._exit(0)
        children[c] = time.time()

    for _ in range(n):
        spawn()
    while children:
        c, status = os.wait()
        children.pop(c, None)
        rc = os.waitstatus_to_exitcode(status)
        if rc != 0:
            # which unit did it hold?
            for name in os.listdir(os.path.join(work, "claim")):
                with open(os.path.join(work, "claim", name)) as f:
                    owner = f.read().strip()
                if owner == str(c) and not os.path.exists(os.path.join(work, "out", name + ".json")):
                    write_result(work, int(name), {"crashed": rc, "evaluations": 0})
            if unclaimed(work, units, want_bc) and respawns < 4 * n:
                respawns += 1
                spawn()
    shutil.rmtree(private, ignore_errors=True)
    os._exit(0)


if __name__ == "__main__":
    main()
