"""Worker process: claims units (O_EXCL files) and runs them under a watchdog."""
import faulthandler
import json
import os
import sys
import traceback

from vf import common


def main():
    pid, work, unit_timeout = sys.argv[1], sys.argv[2], float(sys.argv[3])
    want_bc = sys.argv[4] == "1"
    warm = len(sys.argv) > 5 and sys.argv[5] == "warm"
    if warm:
        # single writer of the shared numba cache
        import importlib

        with common.cache_lock(want_bc, exclusive=True):
            os.environ["VERIF_NUMBA_PRIVATE"] = common.shared_cache_dir(want_bc)
            common.setup_env(boundscheck=want_bc, cache_dir=common.shared_cache_dir(want_bc))
            faulthandler.enable()
            faulthandler.dump_traceback_later(unit_timeout, exit=True)
            m = importlib.import_module("vf.checks." + pid.lower())
            if hasattr(m, "warm"):
                m.warm()
        os._exit(0)
    private = os.path.join(work, f"nb-{os.getpid()}")
    common.copy_shared_cache(want_bc, private)
    os.environ["VERIF_NUMBA_PRIVATE"] = private
    with open(os.path.join(work, "units.json")) as f:
        units = json.load(f)
    faulthandler.enable()
    mode = None
    m = None
    for k, unit in enumerate(units):
        bc = bool(unit.get("boundscheck"))
        if bc != want_bc:
            continue  # a worker serves one numba mode only (env is read at import)
        claim = os.path.join(work, "claim", str(k))
        try:
            fd = os.open(claim, os.O_CREAT | os.O_EXCL | os.O_WRONLY)
        except FileExistsError:
            continue
        os.write(fd, str(os.getpid()).encode())
        os.close(fd)
        if mode is None:
            mode = bc
            common.setup_env(boundscheck=bc)
            import importlib

            m = importlib.import_module("vf.checks." + pid.lower())
        faulthandler.dump_traceback_later(unit_timeout, exit=True)
        try:
            r = m.run_unit(unit)
        except BaseException as e:  # harness error: inconclusive, never a violation
            r = {
                "evaluations": 0,
                "inconclusive": [
                    f"harness error in unit {unit.get('name')}: "
                    + "".join(traceback.format_exception(type(e), e, e.__traceback__))[-1500:]
                ],
            }
        faulthandler.cancel_dump_traceback_later()
        tmp = os.path.join(work, "out", f"{k}.json.tmp")
        with open(tmp, "w") as f:
            f.write(common.canon(r))
        os.rename(tmp, os.path.join(work, "out", f"{k}.json"))
    sys.stdout.flush()
    import shutil

    shutil.rmtree(private, ignore_errors=True)
    os._exit(0)


if __name__ == "__main__":
    main()
