"""Shared bootstrap for every check process (parent and workers).

Sets up numba cache location, silences strax chatter, asserts that the strax
under test is /repo's working tree, and offers small helpers (canonical JSON,
hashing, contexts that swallow stdout).
"""
import contextlib
import hashlib
import io
import json
import os
import sys

VERIF = os.path.dirname(os.path.dirname(os.path.abspath(__file__)))
REPO = os.environ.get("VERIF_REPO", "/repo")
CACHE = os.path.join(VERIF, ".cache")
DEPS = os.path.join(VERIF, ".deps")


def shared_cache_dir(boundscheck):
    return os.path.join(CACHE, "numba-bc" if boundscheck else "numba")


def setup_env(boundscheck=False, cache_dir=None, adhoc_copy=True):
    """Must be called before strax / numba are imported.

    The numba on-disk cache is NOT safe against concurrent writers (two processes
    compiling different signatures of one function pick the same data-file name; a
    later load then runs machine code compiled for the other signature -- observed:
    sort_by_time on record_dtype(6) returning record_dtype(4) rows). Therefore the
    shared cache is only written by a single warm-up process under an exclusive
    lock; parallel workers use private copies (VERIF_NUMBA_PRIVATE).
    """
    os.environ.setdefault("PYTHONHASHSEED", "0")
    if boundscheck:
        os.environ["NUMBA_BOUNDSCHECK"] = "1"
    else:
        os.environ.pop("NUMBA_BOUNDSCHECK", None)
    if cache_dir is None:
        cache_dir = os.environ.get("VERIF_NUMBA_PRIVATE")
    if cache_dir is None:
        # ad-hoc use (replay, interactive): private throw-away copy of the shared cache
        import atexit
        import shutil
        import tempfile

        os.makedirs(CACHE, exist_ok=True)
        cache_dir = tempfile.mkdtemp(prefix="nb-adhoc-", dir=CACHE)
        if adhoc_copy:
            copy_shared_cache(boundscheck, cache_dir)
        atexit.register(shutil.rmtree, cache_dir, True)
        os.environ["VERIF_NUMBA_PRIVATE"] = cache_dir
    os.environ["VERIF_NUMBA_PRIVATE"] = cache_dir
    os.environ["NUMBA_CACHE_DIR"] = cache_dir
    os.makedirs(cache_dir, exist_ok=True)
    os.environ.setdefault("TQDM_DISABLE", "1")
    if REPO not in sys.path:
        sys.path.insert(0, REPO)
    if os.path.isdir(DEPS) and DEPS not in sys.path:
        sys.path.append(DEPS)


class cache_lock:
    """flock on the shared numba cache: exclusive for the warm-up writer, shared for copiers."""

    def __init__(self, boundscheck, exclusive):
        self.path = shared_cache_dir(boundscheck) + ".lock"
        self.exclusive = exclusive

    def __enter__(self):
        import fcntl

        os.makedirs(CACHE, exist_ok=True)
        self.f = open(self.path, "w")
        fcntl.flock(self.f, fcntl.LOCK_EX if self.exclusive else fcntl.LOCK_SH)
        return self

    def __exit__(self, *a):
        import fcntl

        fcntl.flock(self.f, fcntl.LOCK_UN)
        self.f.close()


def copy_shared_cache(boundscheck, dest):
    import shutil

    src = shared_cache_dir(boundscheck)
    if not os.path.isdir(src):
        return
    with cache_lock(boundscheck, exclusive=False):
        shutil.copytree(src, dest, dirs_exist_ok=True)


def import_strax():
    import warnings
    import logging

    warnings.filterwarnings("ignore")
    logging.disable(logging.CRITICAL)
    import strax

    f = os.path.realpath(strax.__file__)
    if not f.startswith(os.path.realpath(REPO) + os.sep):
        raise RuntimeError(f"strax imported from {f}, not from {REPO}")
    try:
        import tqdm

        tqdm.tqdm.monitor_interval = 0
    except Exception:
        pass
    return strax


def canon(obj):
    """Canonical JSON text of a case descriptor."""
    return json.dumps(obj, sort_keys=True, separators=(",", ":"), default=_default)


def _default(o):
    import numpy as np

    if isinstance(o, (np.integer,)):
        return int(o)
    if isinstance(o, (np.floating,)):
        return float(o)
    if isinstance(o, np.ndarray):
        return o.tolist()
    if isinstance(o, (set, frozenset)):
        return sorted(o)
    if isinstance(o, bytes):
        return o.decode("latin1")
    return repr(o)


def jsonable(obj):
    return json.loads(canon(obj))


def chash(obj):
    return hashlib.sha1(canon(obj).encode()).hexdigest()[:16]


@contextlib.contextmanager
def quiet():
    """Swallow stdout/stderr produced by strax (progress, 'Source finished!')."""
    so, se = io.StringIO(), io.StringIO()
    with contextlib.redirect_stdout(so), contextlib.redirect_stderr(se):
        yield


def exc_sig(e):
    """Structural signature of an exception: type + innermost strax frame."""
    import traceback

    tb = traceback.extract_tb(e.__traceback__)
    site = None
    for fr in reversed(tb):
        fn = fr.filename
        if "/strax/" in fn:
            site = f"{os.path.basename(fn)}:{fr.name}"
            break
    return {"exc": type(e).__name__, "site": site, "msg": str(e)[:200]}
