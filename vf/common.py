"""Shared bootstrap for every check process (parent and workers).

Sets up numba cache location, silences strax chatter, asserts that the strax
under test is /repo's working tree, and offers small helpers (canonical JSON,
hashing, contexts that swallow stdout).
"""
import contextlib
import hashlib
import io
import json
import os
import sys

VERIF = os.path.dirname(os.path.dirname(os.path.abspath(__file__)))
REPO = os.environ.get("VERIF_REPO", "/repo")
CACHE = os.path.join(VERIF, ".cache")
DEPS = os.path.join(VERIF, ".deps")


def setup_env(boundscheck=False):
    """Must be called before strax / numba are imported."""
    os.environ.setdefault("PYTHONHASHSEED", "0")
    if boundscheck:
        os.environ["NUMBA_BOUNDSCHECK"] = "1"
        os.environ["NUMBA_CACHE_DIR"] = os.path.join(CACHE, "numba-bc")
    else:
        os.environ.pop("NUMBA_BOUNDSCHECK", None)
        os.environ["NUMBA_CACHE_DIR"] = os.path.join(CACHE, "numba")
    os.makedirs(os.environ["NUMBA_CACHE_DIR"], exist_ok=True)
    os.environ.setdefault("TQDM_DISABLE", "1")
    if REPO not in sys.path:
        sys.path.insert(0, REPO)
    if os.path.isdir(DEPS) and DEPS not in sys.path:
        sys.path.append(DEPS)


def import_strax():
    import warnings
    import logging

    warnings.filterwarnings("ignore")
    logging.disable(logging.CRITICAL)
    import strax

    f = os.path.realpath(strax.__file__)
    if not f.startswith(os.path.realpath(REPO) + os.sep):
        raise RuntimeError(f"strax imported from {f}, not from {REPO}")
    try:
        import tqdm

        tqdm.tqdm.monitor_interval = 0
    except Exception:
        pass
    return strax


def canon(obj):
    """Canonical JSON text of a case descriptor."""
    return json.dumps(obj, sort_keys=True, separators=(",", ":"), default=_default)


def _default(o):
    import numpy as np

    if isinstance(o, (np.integer,)):
        return int(o)
    if isinstance(o, (np.floating,)):
        return float(o)
    if isinstance(o, np.ndarray):
        return o.tolist()
    if isinstance(o, (set, frozenset)):
        return sorted(o)
    if isinstance(o, bytes):
        return o.decode("latin1")
    return repr(o)


def jsonable(obj):
    return json.loads(canon(obj))


def chash(obj):
    return hashlib.sha1(canon(obj).encode()).hexdigest()[:16]


@contextlib.contextmanager
def quiet():
    """Swallow stdout/stderr produced by strax (progress, 'Source finished!')."""
    so, se = io.StringIO(), io.StringIO()
    with contextlib.redirect_stdout(so), contextlib.redirect_stderr(se):
        yield


def exc_sig(e):
    """Structural signature of an exception: type + innermost strax frame."""
    import traceback

    tb = traceback.extract_tb(e.__traceback__)
    site = None
    for fr in reversed(tb):
        fn = fr.filename
        if "/strax/" in fn:
            site = f"{os.path.basename(fn)}:{fr.name}"
            break
    return {"exc": type(e).__name__, "site": site, "msg": str(e)[:200]}
