"""File-system tracer and fault injector built on sys.addaudithook.

One process-wide hook (audit hooks cannot be removed) that is inert unless armed.
While armed it records every audited file-system operation whose path lies under the
armed root -- open (with mode), os.mkdir, os.rename, os.remove, os.rmdir,
shutil.rmtree, os.listdir/scandir, glob -- and can inject a fault at the k-th
*mutating* event: raise OSError there (also from pool worker threads, hooks are
process-wide) or kill the process (os._exit) just before the operation.
"""
import os
import sys
import threading

_lock = threading.Lock()
_state = {"root": None, "events": [], "fault_at": None, "fault_kind": None, "n_mut": 0, "fired": False,
          "only": None}
_installed = False

MUTATING = {"os.mkdir", "os.rename", "os.remove", "os.rmdir", "shutil.rmtree", "open:w", "os.replace", "shutil.move"}


class InjectedIOError(OSError):
    pass


def _classify(event, args):
    try:
        if event == "open":
            path, mode, flags = args[0], args[1], args[2]
            if not isinstance(path, (str, bytes)):
                return None
            if isinstance(path, bytes):
                path = path.decode()
            w = (mode is not None and any(c in str(mode) for c in "wax+")) or (
                isinstance(flags, int) and flags & (os.O_WRONLY | os.O_RDWR | os.O_CREAT))
            return ("open:w" if w else "open:r"), path, None
        if event in ("os.mkdir", "os.remove", "os.rmdir", "shutil.rmtree", "os.listdir", "os.scandir"):
            p = args[0]
            if isinstance(p, bytes):
                p = p.decode()
            if not isinstance(p, str):
                return None
            return event, p, None
        if event in ("os.rename", "shutil.move", "os.replace"):
            a, b = args[0], args[1]
            if isinstance(a, bytes):
                a = a.decode()
            if isinstance(b, bytes):
                b = b.decode()
            return event, str(a), str(b)
        if event == "glob.glob":
            return event, str(args[0]), None
    except Exception:  # noqa: BLE001
        return None
    return None


def _hook(event, args):
    root = _state["root"]
    if root is None:
        return
    if event not in ("open", "os.mkdir", "os.rename", "os.remove", "os.rmdir", "shutil.rmtree", "os.listdir",
                     "os.scandir", "glob.glob", "shutil.move", "os.replace"):
        return
    c = _classify(event, args)
    if c is None:
        return
    kind, p, p2 = c
    if not (p.startswith(root) or (p2 is not None and p2.startswith(root))):
        return
    fire = None
    with _lock:
        if _state["root"] is None:
            return
        rec = {"op": kind, "path": os.path.relpath(p, root) if p.startswith(root) else p}
        if p2 is not None:
            rec["dst"] = os.path.relpath(p2, root) if p2.startswith(root) else p2
        mut = kind in MUTATING
        if mut:
            rec["k"] = _state["n_mut"]
            if (_state["fault_at"] is not None and _state["n_mut"] == _state["fault_at"]
                    and not _state["fired"]):
                _state["fired"] = True
                fire = _state["fault_kind"]
                rec["fault"] = fire
            _state["n_mut"] += 1
        rec["thread"] = threading.current_thread().name
        _state["events"].append(rec)
    if fire == "raise":
        raise InjectedIOError(f"injected I/O error at {kind} {rec['path']}")
    if fire == "exit":
        sys.stdout.flush()
        os._exit(77)


def install():
    global _installed
    if not _installed:
        sys.addaudithook(_hook)
        _installed = True


def arm(root, fault_at=None, fault_kind=None):
    """Start recording under root. fault_at = index of the mutating event to fault, kind = raise | exit."""
    install()
    with _lock:
        _state.update(root=os.path.join(os.path.abspath(root), ""), events=[], fault_at=fault_at,
                      fault_kind=fault_kind, n_mut=0, fired=False)


def disarm():
    with _lock:
        ev = _state["events"]
        fired = _state["fired"]
        _state.update(root=None, events=[], fault_at=None, fault_kind=None)
    return ev, fired


def peek():
    with _lock:
        return list(_state["events"])
