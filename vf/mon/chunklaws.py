"""Law-of-chunking monitors: pure observers of real strax Chunk / Rechunker operations.

Two uses:
  * C07 calls the oracles directly around explicit API calls;
  * install() wraps strax.Chunk.__init__/split/concatenate/merge and
    strax.Rechunker.receive/flush so that every such operation strax performs inside a
    pipeline workload (C01, C03, C08, ...) is checked too. Violations are appended to
    LOG (thread-safe); counters count evaluations so a detached monitor is noticed.

Monitors only look at arguments and results of one operation, in the calling thread,
at the operation boundary; they never touch strax state.
"""
import threading

import numpy as np

_lock = threading.Lock()
LOG = []          # list of dict(op, what, detail)
COUNTS = {}
_installed = False
_tls = threading.local()


def _count(k, n=1):
    with _lock:
        COUNTS[k] = COUNTS.get(k, 0) + n


def _report(op, what, detail):
    with _lock:
        if len(LOG) < 200:
            LOG.append({"op": op, "what": what, "detail": detail})


def reset():
    with _lock:
        LOG.clear()
        COUNTS.clear()


def snapshot():
    with _lock:
        return list(LOG), dict(COUNTS)


def endtime(a):
    if "endtime" in a.dtype.names:
        return a["endtime"]
    return a["time"] + a["length"].astype(np.int64) * a["dt"].astype(np.int64)


def bits_equal(a, b):
    return a.dtype == b.dtype and a.shape == b.shape and a.tobytes() == b.tobytes()


# ------------------------------------------------------------------ single chunk invariant
def chunk_errors(c):
    """All-rows version of the constructor's sanity checks."""
    errs = []
    if not (isinstance(c.start, int) and isinstance(c.end, int)):
        errs.append(f"non-integer bounds {c.start!r},{c.end!r}")
        return errs
    if not (0 <= c.start <= c.end):
        errs.append(f"bad bounds [{c.start},{c.end})")
    d = c.data
    if len(d):
        t = d["time"]
        e = endtime(d)
        if t.min() < c.start:
            errs.append(f"row starts at {int(t.min())} before chunk start {c.start}")
        if e.max() > c.end:
            errs.append(f"row ends at {int(e.max())} after chunk end {c.end}")
        if np.any(np.diff(t) < 0):
            errs.append("rows not sorted by time")
        if c.start == c.end:
            errs.append("zero-duration chunk with rows")
    return errs


# ------------------------------------------------------------------ split
def latest_clean_cut(data, t, lo):
    """Latest time c <= t (c >= lo) that no row straddles (time < c < endtime)."""
    if not len(data):
        return t
    ts = data["time"]
    es = endtime(data)
    cands = sorted(set([t] + [int(x) for x in ts if x <= t] + [lo]), reverse=True)
    for c in cands:
        if c < lo:
            continue
        if not np.any((ts < c) & (es > c)):
            return c
    return lo


def split_errors(orig, t, allow_early, res, exc, CannotSplit):
    """Oracle for Chunk.split. res = (c1, c2) or None; exc = exception or None."""
    errs = []
    tc = max(min(t, orig.end), orig.start)
    d = orig.data
    ts = d["time"]
    es = endtime(d)
    straddled = bool(len(d)) and bool(np.any((ts < tc) & (es > tc)))
    if exc is not None:
        if isinstance(exc, CannotSplit):
            if allow_early:
                errs.append(f"CannotSplit raised although early split allowed (t={t})")
            elif not straddled:
                errs.append(f"CannotSplit raised at t={t} although no row straddles it")
        else:
            errs.append(f"unexpected exception {type(exc).__name__}: {exc}")
        return errs
    c1, c2 = res
    if straddled and not allow_early:
        errs.append(f"split at t={t} succeeded although a row straddles it")
    want_t = latest_clean_cut(d, tc, orig.start) if straddled else tc
    if c1.end != c2.start:
        errs.append(f"halves not adjacent: {c1.end} != {c2.start}")
    if c1.end != want_t:
        errs.append(f"split time {c1.end}, expected {want_t} (requested {t}, early={allow_early})")
    if c1.start != orig.start or c2.end != orig.end:
        errs.append(f"outer bounds changed: [{c1.start},{c2.end}) vs [{orig.start},{orig.end})")
    cat = np.concatenate([c1.data, c2.data])
    if not bits_equal(cat, d):
        errs.append("rows of the halves do not concatenate to the original")
    if len(c1.data) and endtime(c1.data).max() > c1.end:
        errs.append("left half has a row ending after the split time")
    if len(c2.data) and c2.data["time"].min() < c2.start:
        errs.append("right half has a row starting before the split time")
    for h in (c1, c2):
        if h.data_type != orig.data_type or h.data_kind != orig.data_kind or h.dtype != orig.dtype:
            errs.append("type/kind/dtype not preserved")
        errs.extend(chunk_errors(h))
    return errs


# ------------------------------------------------------------------ concatenate / merge
def concat_errors(chunks, allow_superrun, res, exc):
    errs = []
    cs = [c for c in chunks if c is not None]
    if not cs:
        if exc is None:
            errs.append("concatenate of nothing succeeded")
        return errs
    must_reject = None
    if len(cs) > 1:
        if len({c.data_type for c in cs}) != 1:
            must_reject = "different data types"
        elif len({c.run_id for c in cs}) != 1 and not allow_superrun:
            must_reject = "different run ids"
        else:
            prev = 0
            for c in cs:
                if c.start < prev:
                    must_reject = "overlapping or out-of-order chunks"
                prev = c.end
    if exc is not None:
        if must_reject is None:
            errs.append(f"concatenate raised on valid input: {type(exc).__name__}: {exc}")
        return errs
    if must_reject is not None:
        errs.append(f"concatenate accepted {must_reject}")
        return errs
    if len(cs) == 1:
        if res is not cs[0]:
            errs.append("single chunk not returned as is")
        return errs
    if res.start != cs[0].start or res.end != cs[-1].end:
        errs.append(f"range [{res.start},{res.end}) != [{cs[0].start},{cs[-1].end})")
    if not bits_equal(res.data, np.concatenate([c.data for c in cs])):
        errs.append("data is not the concatenation of the inputs")
    if res.data_type != cs[0].data_type or res.data_kind != cs[0].data_kind:
        errs.append("type/kind not preserved")
    errs.extend(chunk_errors(res))
    return errs


def merge_errors(chunks, res, exc):
    errs = []
    cs = [c for c in chunks if c is not None]
    if not cs:
        if exc is None:
            errs.append("merge of nothing succeeded")
        return errs
    must_reject = None
    if len(cs) > 1:
        if len({c.data_kind for c in cs}) != 1:
            must_reject = "different data kinds"
        elif len({c.run_id for c in cs}) != 1:
            must_reject = "different run ids"
        elif len({len(c) for c in cs}) != 1:
            must_reject = "unequal lengths"
        elif len({(c.start, c.end) for c in cs}) != 1:
            must_reject = "different time ranges"
    if exc is not None:
        if must_reject is None:
            errs.append(f"merge raised on valid input: {type(exc).__name__}: {exc}")
        return errs
    if must_reject is not None:
        errs.append(f"merge accepted {must_reject}")
        return errs
    if len(cs) == 1:
        return errs
    if (res.start, res.end) != (cs[0].start, cs[0].end):
        errs.append("merge changed the time range")
    if len(res) != len(cs[0]):
        errs.append("merge changed the number of rows")
    names = set()
    for c in cs:
        names.update(c.data.dtype.names)
    if set(res.data.dtype.names) != names:
        errs.append(f"merged fields {res.data.dtype.names} != union {sorted(names)}")
    else:
        for f in names:
            last = [c for c in cs if f in c.data.dtype.names][-1]
            if not np.array_equal(res.data[f], last.data[f]):
                errs.append(f"field {f} does not equal the value of the last chunk providing it")
    errs.extend(chunk_errors(res))
    return errs


# ------------------------------------------------------------------ rechunker stream monitor
class RechunkStream:
    """Conservation / contiguity / clean-cut monitor for one Rechunker instance."""

    def __init__(self):
        self.rows_in = []
        self.rows_out = []
        self.in_start = None
        self.in_end = None
        self.out_end = None
        self.out_start = None
        self.errs = []
        self.n_in = 0
        self.n_out = 0

    def feed(self, chunk):
        self.n_in += 1
        if self.in_start is None:
            self.in_start = chunk.start
        self.in_end = chunk.end
        self.rows_in.append(chunk.data)

    def emit(self, chunks):
        for c in chunks:
            self.n_out += 1
            if self.out_start is None:
                self.out_start = c.start
                if c.start != self.in_start:
                    self.errs.append(f"output starts at {c.start}, input at {self.in_start}")
            elif c.start != self.out_end:
                self.errs.append(f"output not contiguous: {c.start} after {self.out_end}")
            self.out_end = c.end
            self.rows_out.append(c.data)
            self.errs.extend(chunk_errors(c))

    def final(self):
        """Call after flush."""
        errs = list(self.errs)
        if self.n_in == 0:
            return errs
        a = np.concatenate(self.rows_in) if self.rows_in else None
        b = np.concatenate(self.rows_out) if self.rows_out else None
        if b is None or not bits_equal(a, b):
            errs.append(f"rows not conserved: {0 if b is None else len(b)} out for {len(a)} in")
        if self.out_end != self.in_end:
            errs.append(f"output ends at {self.out_end}, input at {self.in_end}")
        return errs


# ------------------------------------------------------------------ installation on the real classes
def install(strax):
    """Wrap the real methods (idempotent). Returns a function that uninstalls."""
    global _installed
    if _installed:
        return lambda: None
    Chunk = strax.Chunk
    orig_init = Chunk.__init__
    orig_split = Chunk.split
    orig_concat = Chunk.concatenate.__func__
    orig_merge = Chunk.merge.__func__
    R = strax.Rechunker
    orig_receive = R.receive
    orig_flush = R.flush
    orig_rinit = R.__init__

    def depth():
        return getattr(_tls, "d", 0)

    def init(self, *a, **k):
        orig_init(self, *a, **k)
        if depth() == 0:
            _count("chunk_init")
            for e in chunk_errors(self):
                _report("Chunk.__init__", e, repr(self))

    def split(self, t, allow_early_split=False):
        _tls.d = depth() + 1
        try:
            try:
                res = orig_split(self, t, allow_early_split=allow_early_split)
                exc = None
            except Exception as e:  # noqa: BLE001
                res, exc = None, e
        finally:
            _tls.d = depth() - 1
        _count("split")
        for e in split_errors(self, t, allow_early_split, res, exc, strax.CannotSplit):
            _report("Chunk.split", e, f"{self!r} t={t} early={allow_early_split}")
        if exc is not None:
            raise exc
        return res

    def concatenate(cls, chunks, allow_superrun=False):
        chunks = list(chunks)
        _tls.d = depth() + 1
        try:
            try:
                res = orig_concat(cls, chunks, allow_superrun)
                exc = None
            except Exception as e:  # noqa: BLE001
                res, exc = None, e
        finally:
            _tls.d = depth() - 1
        _count("concatenate")
        for e in concat_errors(chunks, allow_superrun, res, exc):
            _report("Chunk.concatenate", e, repr(chunks))
        if exc is not None:
            raise exc
        return res

    def merge(cls, chunks, data_type="<UNKNOWN>"):
        chunks = list(chunks)
        _tls.d = depth() + 1
        try:
            try:
                res = orig_merge(cls, chunks, data_type)
                exc = None
            except Exception as e:  # noqa: BLE001
                res, exc = None, e
        finally:
            _tls.d = depth() - 1
        _count("merge")
        for e in merge_errors(chunks, res, exc):
            _report("Chunk.merge", e, repr(chunks))
        if exc is not None:
            raise exc
        return res

    def rinit(self, *a, **k):
        orig_rinit(self, *a, **k)
        self._vf_stream = RechunkStream()

    def receive(self, chunk):
        st = getattr(self, "_vf_stream", None)
        if st is not None and self.rechunk:
            st.feed(chunk)
        out = orig_receive(self, chunk)
        if st is not None and self.rechunk:
            _count("rechunk_receive")
            st.emit(out)
        return out

    def flush(self):
        out = orig_flush(self)
        st = getattr(self, "_vf_stream", None)
        if st is not None and self.rechunk:
            st.emit(out)
            _count("rechunk_flush")
            for e in st.final():
                _report("Rechunker", e, f"run {self.run_id}: {st.n_in} chunks in, {st.n_out} out")
            self._vf_stream = RechunkStream()
        return out

    Chunk.__init__ = init
    Chunk.split = split
    Chunk.concatenate = classmethod(concatenate)
    Chunk.merge = classmethod(merge)
    R.__init__ = rinit
    R.receive = receive
    R.flush = flush
    _installed = True

    def uninstall():
        global _installed
        Chunk.__init__ = orig_init
        Chunk.split = orig_split
        Chunk.concatenate = classmethod(orig_concat)
        Chunk.merge = classmethod(orig_merge)
        R.__init__ = orig_rinit
        R.receive = orig_receive
        R.flush = orig_flush
        _installed = False

    return uninstall
