"""Oracle for stored-data metadata vs the files and vs the chunks the loader returns."""
import json
import os

import numpy as np


def endtime(a):
    if "endtime" in a.dtype.names:
        return a["endtime"]
    return a["time"] + a["length"].astype(np.int64) * a["dt"].astype(np.int64)


def find_metadata(dirname):
    for f in os.listdir(dirname):
        if f.endswith("-metadata.json"):
            return os.path.join(dirname, f)
    return None


def metadata_errors(dirname, loaded_chunks=None, run_id=None):
    """Return list of inconsistencies between metadata json, files on disk and loaded chunks."""
    errs = []
    if dirname.endswith("_temp"):
        errs.append("directory is a _temp leftover")
    mp = find_metadata(dirname)
    if mp is None:
        return [f"no metadata json in {dirname}"]
    with open(mp) as f:
        md = json.load(f)
    if "writing_ended" not in md:
        errs.append("metadata lacks writing_ended")
    if "exception" in md:
        errs.append("metadata records an exception")
    chunks = md.get("chunks", [])
    if not chunks:
        errs.append("metadata has no chunks")
        return errs
    files = set(os.listdir(dirname))
    for f in files:
        if f.endswith("_temp"):
            errs.append(f"temp leftover {f}")
    listed = set()
    for i, ci in enumerate(chunks):
        if ci.get("chunk_i") != i:
            errs.append(f"chunk {i} has chunk_i {ci.get('chunk_i')}")
        if run_id is not None and ci.get("run_id") != run_id:
            errs.append(f"chunk {i} run_id {ci.get('run_id')} != {run_id}")
        has_file = "filename" in ci
        if has_file != (ci["n"] > 0):
            errs.append(f"chunk {i}: n={ci['n']} but filename {'present' if has_file else 'absent'}")
        if has_file:
            listed.add(ci["filename"])
            p = os.path.join(dirname, ci["filename"])
            if not os.path.exists(p):
                errs.append(f"chunk {i}: file {ci['filename']} missing")
            elif "filesize" in ci and ci["filesize"] != os.stat(p).st_size:
                errs.append(f"chunk {i}: filesize {ci['filesize']} != {os.stat(p).st_size} on disk")
        if i and ci["start"] != chunks[i - 1]["end"]:
            errs.append(f"chunk {i} starts at {ci['start']}, previous ended at {chunks[i - 1]['end']}")
    extra = {f for f in files if not f.endswith("metadata.json") and f not in listed and not f.startswith("metadata_")}
    if extra:
        errs.append(f"files not listed in metadata: {sorted(extra)[:3]}")
    if md.get("start") != chunks[0]["start"] or md.get("end") != chunks[-1]["end"]:
        errs.append(f"top-level range [{md.get('start')},{md.get('end')}) != chunks [{chunks[0]['start']},{chunks[-1]['end']})")
    if loaded_chunks is not None:
        if len(loaded_chunks) != len(chunks):
            errs.append(f"{len(chunks)} chunks in metadata, {len(loaded_chunks)} loaded")
        else:
            for i, (ci, c) in enumerate(zip(chunks, loaded_chunks)):
                if ci["n"] != len(c) or ci["start"] != c.start or ci["end"] != c.end or ci["nbytes"] != c.nbytes:
                    errs.append(f"chunk {i}: metadata n/start/end/nbytes {ci['n']},{ci['start']},{ci['end']},{ci['nbytes']}"
                                f" != loaded {len(c)},{c.start},{c.end},{c.nbytes}")
                if len(c):
                    want = (int(c.data["time"][0]), int(endtime(c.data)[0]), int(c.data["time"][-1]), int(endtime(c.data)[-1]))
                    got = (ci.get("first_time"), ci.get("first_endtime"), ci.get("last_time"), ci.get("last_endtime"))
                    if got != want:
                        errs.append(f"chunk {i}: first/last time fields {got} != data {want}")
    return errs
