"""Runner: ./check <ID> [--tier quick|thorough] [--replay PATH]

A check module (vf.checks.cXX) provides

  PROPERTY, LEVEL, RULE, ASSUMPTIONS, TECHNIQUE (strings / lists)
  REQUIRED = {counter_name: minimum}      deciding monitors; below minimum -> inconclusive
  units(tier, seed) -> list of JSON-able unit descriptors (each a batch of cases)
  run_unit(unit) -> dict with keys
        evaluations      int
        hashes           list[str]   hashes of distinct non-trivial cases  (or)
        distinct         int         count of non-trivial cases distinct by construction
        counters         {name: int} what the monitors observed
        samples          list        a few actual cases
        violations       list of {sig: {...}, what: str, case: {...}}
        inconclusive     list of str
  replay(case) -> list of violations (same format)
  optional: BOUNDSCHECK_UNITS (bool per unit via unit["boundscheck"]), UNIT_TIMEOUT

Units are executed by worker subprocesses (dynamic claiming through O_EXCL files)
under a faulthandler watchdog; a watchdog firing is *inconclusive*, a hard
interpreter crash (signal) inside a unit is a violation with sig {"exc": "CRASH"}.
"""
import argparse
import importlib
import json
import os
import shutil
import subprocess
import sys
import time

from vf import common

KNOWN = os.path.join(common.VERIF, "known_findings.json")


def load_known():
    if not os.path.exists(KNOWN):
        return []
    with open(KNOWN) as f:
        return json.load(f)["findings"]


def match_known(prop, v, known):
    sig = v.get("sig", {})
    for k in known:
        if k.get("status") != "known":
            continue
        props = k.get("properties") or [k["property"]]
        if prop not in props:
            continue
        if all(sig.get(f) == val for f, val in k["match"].items()):
            return k
    return None


def mod_for(pid):
    return importlib.import_module("vf.checks." + pid.lower())


def write_replay(pid, v):
    d = os.path.join(common.VERIF, "replays")
    os.makedirs(d, exist_ok=True)
    body = {"property": pid, "sig": v.get("sig"), "what": v.get("what"), "case": v.get("case")}
    path = os.path.join(d, f"{pid}-{common.chash(body)}.json")
    with open(path, "w") as f:
        f.write(json.dumps(common.jsonable(body), indent=1))
    return path


def report(pid, violations, known):
    """Print KNOWN-FINDING / VIOLATION lines. Return number of unlisted violations."""
    seen_known = {}
    fresh = []
    for v in violations:
        k = match_known(pid, v, known)
        if k is not None:
            seen_known.setdefault(k["id"], [k, 0])[1] += 1
        else:
            fresh.append(v)
    for kid, (k, n) in sorted(seen_known.items()):
        print(f"KNOWN-FINDING: property={pid} {k['id']}: {k['what']} (observed {n}x this run)")
    # group fresh violations by signature (without free text) so output stays short
    groups = {}
    for v in fresh:
        s = dict(v.get("sig", {}))
        s.pop("msg", None)
        groups.setdefault(common.canon(s), []).append(v)
    for gk, vs in groups.items():
        path = write_replay(pid, vs[0])
        print(f"VIOLATION property={pid} replay={path}")
        print(f"  signature={gk} count={len(vs)} what={vs[0].get('what')}")
    return len(fresh), {kid: n for kid, (k, n) in seen_known.items()}


def run_workers(pid, units, tier, seed, nworkers, unit_timeout):
    work = os.path.join(common.CACHE, f"run-{pid}-{os.getpid()}")
    shutil.rmtree(work, ignore_errors=True)
    os.makedirs(os.path.join(work, "claim"))
    os.makedirs(os.path.join(work, "out"))
    with open(os.path.join(work, "units.json"), "w") as f:
        json.dump(common.jsonable(units), f)
    env = dict(os.environ)
    env["PYTHONPATH"] = common.VERIF + os.pathsep + common.REPO
    env["VERIF_SEED"] = str(seed)
    env["VERIF_TIER"] = tier
    env.pop("VERIF_NUMBA_PRIVATE", None)
    env.pop("NUMBA_CACHE_DIR", None)
    # temporary files of the workers (e.g. multiprocessing's fork-server sockets) live and die with the run
    os.makedirs(os.path.join(work, "tmp"))
    env["TMPDIR"] = os.path.join(work, "tmp")
    for v in ("OMP_NUM_THREADS", "NUMBA_NUM_THREADS", "OPENBLAS_NUM_THREADS", "MKL_NUM_THREADS",
              "BLOSC_NTHREADS"):
        env.setdefault(v, "1")
    results = {}
    crashed = {}
    overall = max(900, unit_timeout * (len(units) / max(1, nworkers) + 2))

    n_bc = sum(1 for u in units if u.get("boundscheck"))
    n_plain = len(units) - n_bc
    w_bc = 0 if not n_bc else max(1, min(n_bc, round(nworkers * n_bc / len(units))))
    w_plain = 0 if not n_plain else max(1, min(n_plain, nworkers - w_bc))

    def start(bc, mode, n=None):
        log = open(os.path.join(work, f"{mode}-{int(bc)}.log"), "w")
        cmd = [sys.executable, "-m", "vf.worker", pid, work, str(unit_timeout), "1" if bc else "0", mode]
        if n is not None:
            cmd.append(str(n))
        p = subprocess.Popen(cmd, env=env, stdout=log, stderr=subprocess.STDOUT, cwd=common.VERIF)
        p._log = log.name
        return p

    # warm phase: one writer per numba mode fills the shared cache (see common.setup_env)
    warmers = [start(bc, "warm") for bc, n in ((False, n_plain), (True, n_bc)) if n]
    for p in warmers:
        try:
            p.wait(timeout=1800)
        except subprocess.TimeoutExpired:
            p.kill()
    if os.environ.get("VERIF_DEBUG"):
        print(f"[runner] warm phase done {time.time():.1f}")
    # work phase: one zygote per numba mode forks the unit workers
    zygotes = [start(bc, "zygote", n) for bc, n in ((False, w_plain), (True, w_bc)) if n]
    deadline = time.time() + overall
    for p in zygotes:
        try:
            p.wait(timeout=max(1, deadline - time.time()))
        except subprocess.TimeoutExpired:
            p.kill()
    tails = {}
    for p in zygotes:
        try:
            with open(p._log) as f:
                tails[p._log] = f.read()[-3000:]
        except Exception:
            pass
    for k in range(len(units)):
        path = os.path.join(work, "out", f"{k}.json")
        if os.path.exists(path):
            with open(path) as f:
                r = json.load(f)
            if "crashed" in r:
                crashed[k] = (r["crashed"], "\n".join(tails.values()))
            else:
                results[k] = r
    if not crashed and len(results) == len(units):
        shutil.rmtree(work, ignore_errors=True)
    return results, crashed, work


def main(argv=None):
    ap = argparse.ArgumentParser()
    ap.add_argument("pid")
    ap.add_argument("--tier", default=os.environ.get("VERIF_TIER") or "quick")
    ap.add_argument("--replay")
    ap.add_argument("--workers", type=int, default=int(os.environ.get("VERIF_WORKERS", "16")))
    ap.add_argument("--only", help="run only units whose 'name' contains this")
    a = ap.parse_args(argv)
    pid = a.pid.upper()
    tier = a.tier if a.tier in ("quick", "thorough") else "quick"
    seed = int(os.environ.get("VERIF_SEED", "0") or 0)
    common.setup_env(adhoc_copy=bool(a.replay))
    from vf import bootstrap

    bootstrap.ensure_deps()
    known = load_known()

    if a.replay:
        with open(a.replay) as f:
            body = json.load(f)
        if (body.get("case") or {}).get("boundscheck"):
            os.environ.pop("VERIF_NUMBA_PRIVATE", None)
            common.setup_env(boundscheck=True)
        m = mod_for(pid)
        vs = m.replay(body["case"])
        n, _ = report(pid, vs, known)
        if not vs:
            print(f"replay: no violation reproduced for {a.replay}")
        return 1 if n else 0

    t0 = time.time()
    m = mod_for(pid)
    units = m.units(tier, seed)
    if a.only:
        units = [u for u in units if a.only in str(u.get("name", ""))]
    unit_timeout = getattr(m, "UNIT_TIMEOUT", 600)
    results, crashed, work = run_workers(
        pid, units, tier, seed, max(1, min(a.workers, len(units))), unit_timeout
    )

    evaluations = 0
    hashes = set()
    distinct = 0
    counters = {}
    samples = []
    violations = []
    inconclusive = []
    for k in range(len(units)):
        r = results.get(k)
        if r is None:
            if k in crashed:
                rc, tail = crashed[k]
                if rc < 0 and rc not in (-9, -15):
                    violations.append(
                        {
                            "sig": {"exc": "CRASH", "signal": -rc, "unit": units[k].get("name")},
                            "what": f"interpreter died with signal {-rc} in unit {units[k].get('name')}",
                            "case": {"unit": units[k], "log_tail": tail[-1500:]},
                        }
                    )
                else:
                    inconclusive.append(
                        f"unit {k} ({units[k].get('name')}) worker exit {rc}: {tail[-400:]}"
                    )
            else:
                inconclusive.append(f"unit {k} ({units[k].get('name')}) never ran")
            continue
        evaluations += r.get("evaluations", 0)
        hashes.update(r.get("hashes", []))
        distinct += r.get("distinct", 0)
        for c, n in r.get("counters", {}).items():
            counters[c] = counters.get(c, 0) + n
        if len(samples) < 6:
            samples.extend(r.get("samples", [])[: max(1, 6 - len(samples))])
        violations.extend(r.get("violations", []))
        inconclusive.extend(r.get("inconclusive", []))

    required = getattr(m, "REQUIRED", {})
    if callable(required):
        required = required(tier)
    for c, mn in required.items():
        if counters.get(c, 0) < mn:
            inconclusive.append(f"monitor counter {c}={counters.get(c, 0)} below required {mn}")

    nfresh, known_seen = report(pid, violations, known)
    wall = time.time() - t0
    ev = {
        "property_id": pid,
        "tier": tier,
        "seed": seed,
        "level": m.LEVEL,
        "coverage": {
            "evaluations": int(evaluations),
            "distinct_nontrivial": int(len(hashes) + distinct),
            "rule": m.RULE,
            "samples": samples[:6] or ["<none>"],
            "counters": counters,
            "units": len(units),
            "units_completed": len(results),
            "inconclusive": inconclusive[:20],
            "inconclusive_count": len(inconclusive),
            "known_findings_observed": known_seen,
            "technique": getattr(m, "TECHNIQUE", ""),
            "exhaustive": bool(getattr(m, "EXHAUSTIVE", False)),
        },
        "assumptions": list(getattr(m, "ASSUMPTIONS", [])),
        "wall_s": round(wall, 2),
        "violations": int(nfresh),
    }
    os.makedirs(os.path.join(common.VERIF, "evidence"), exist_ok=True)
    with open(os.path.join(common.VERIF, "evidence", f"{pid}.json"), "w") as f:
        json.dump(common.jsonable(ev), f, indent=1)
        f.write("\n")
    print(
        f"{pid} tier={tier} seed={seed}: evaluations={evaluations} "
        f"distinct_nontrivial={len(hashes) + distinct} violations={nfresh} "
        f"known={sum(known_seen.values())} inconclusive={len(inconclusive)} wall={wall:.1f}s"
    )
    print("  counters: " + json.dumps(counters, sort_keys=True))
    if nfresh:
        return 1
    if inconclusive:
        for s in inconclusive[:10]:
            print("INCONCLUSIVE:", s[:600])
        return 2
    return 0


if __name__ == "__main__":
    sys.exit(main())
