"""Warm the shared numba caches for every check (each warm-up is a single cache writer under a lock)."""
import glob
import os
import subprocess
import sys

from vf import common


def main():
    env = dict(os.environ, PYTHONPATH=common.VERIF + os.pathsep + common.REPO)
    env.pop("VERIF_NUMBA_PRIVATE", None)
    env.pop("NUMBA_CACHE_DIR", None)
    work = os.path.join(common.CACHE, "warm")
    os.makedirs(work, exist_ok=True)
    mods = sorted(os.path.basename(p)[:-3].upper() for p in glob.glob(os.path.join(common.VERIF, "vf", "checks", "c[0-9][0-9].py")))
    procs = []
    for pid in mods:
        src = open(os.path.join(common.VERIF, "vf", "checks", pid.lower() + ".py")).read()
        if "def warm(" not in src:
            continue
        modes = ("0", "1") if "boundscheck" in src else ("0",)
        for bc in modes:
            log = open(os.path.join(work, f"{pid}-{bc}.log"), "w")
            procs.append((pid, bc, subprocess.Popen(
                [sys.executable, "-m", "vf.worker", pid, work, "1500", bc, "warm"],
                env=env, stdout=log, stderr=subprocess.STDOUT, cwd=common.VERIF)))
    rc = {f"{pid}/{bc}": p.wait() for pid, bc, p in procs}
    print("warmup exit codes:", rc)
    return 0


if __name__ == "__main__":
    sys.exit(main())
