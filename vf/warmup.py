"""Warm the numba caches used by the checks (both plain and bounds-checked)."""
import os
import subprocess
import sys

from vf import common

CODE = r"""
import os, sys
from vf import common
common.setup_env(boundscheck=bool(int(sys.argv[1])))
strax = common.import_strax()
import numpy as np
from vf.harness.intervals import arr
t = arr([(0, 1), (2, 3)]); c = arr([(0, 5)])
strax.fully_contained_in(t, c); strax.split_by_containment(t, c); strax.touching_windows(t, c)
strax.abs_time_to_prev_next_interval(t, c); strax.diff(t); strax.sort_by_time(t)
print("warm", sys.argv[1])
"""


def main():
    env = dict(os.environ, PYTHONPATH=common.VERIF + os.pathsep + common.REPO)
    ps = [subprocess.Popen([sys.executable, "-c", CODE, str(bc)], env=env, cwd=common.VERIF) for bc in (0, 1)]
    rc = [p.wait() for p in ps]
    print("warmup rc", rc)
    return 0


if __name__ == "__main__":
    sys.exit(main())
