"""Regenerate /verif/MANIFEST.json from the check modules that exist.

Usage: PYTHONPATH=/verif /venv/bin/python -m vf.mkmanifest
Per-property level text lives here so that MANIFEST.json is always valid and current.
"""
import json
import os

from vf import common

LEVELS = {
    "C01": ("exploration", "§3 C01"),
    "C02": ("exploration", "§3 C02"),
    "C03": ("exploration", "§3 C03"),
    "C04": ("fault_enumeration", "§3 C04"),
    "C05": ("exploration", "§3 C05"),
    "C06": ("fault_enumeration", "§3 C06"),
    "C07": ("exploration", "§3 C07"),
    "C08": ("exploration", "§3 C08"),
    "C09": ("exploration", "§3 C09"),
    "C10": ("exploration", "§3 C10"),
    "C11": ("exploration", "§3 C11"),
    "C12": ("fault_enumeration", "§3 C12"),
    "C13": ("exploration", "§3 C13"),
    "C14": ("exploration", "§3 C14"),
    "C15": ("exploration", "§3 C15"),
    "C16": ("exploration", "§3 C16"),
    "C17": ("exploration", "§3 C17"),
    "C18": ("exploration", "§3 C18"),
    "C19": ("exploration", "§3 C19"),
}

SETUP = (
    "cd /verif && PYTHONPATH=/verif:/repo /venv/bin/python -m vf.bootstrap && "
    "PYTHONPATH=/verif:/repo /venv/bin/python -m vf.warmup"
)

BASELINE = (
    "cd /repo && /venv/bin/python -m pytest -ra -q -p no:cacheprovider --timeout=900 "
    "--continue-on-collection-errors"
)


def main():
    checks = []
    na = []
    for pid, (level, ref) in sorted(LEVELS.items()):
        path = os.path.join(common.VERIF, "vf", "checks", pid.lower() + ".py")
        if not os.path.exists(path):
            na.append({"property_id": pid, "reason": "check not built yet in this round (see DESIGN.md §3 for the planned monitor); not claimed"})
            continue
        from vf.checks.meta import META

        m = META.get(pid, {})
        ns = {"LEVEL_TEXT": m.get("level_text"), "LEVEL_NOTE": m.get("level_note"), "TECHNIQUE": m.get("technique")}
        ns = {k: v for k, v in ns.items() if v}
        checks.append(
            {
                "property_id": pid,
                "quick_cmd": f"./check {pid} --tier quick",
                "thorough_cmd": f"./check {pid} --tier thorough",
                "evidence_file": f"/verif/evidence/{pid}.json",
                "replay_cmd_template": f"./check {pid} --replay {{path}}",
                "engine": "vf-runner",
                "level_claimed": {
                    "category": level,
                    "text": ns.get("LEVEL_TEXT", "held on the executions explored (see evidence counters)"),
                    "design_ref": ref,
                },
                "level_note": ns.get("LEVEL_NOTE", "trusted: the reference oracles and generators in vf/"),
                "technique": ns.get("TECHNIQUE", "runtime monitoring"),
            }
        )
    hooks_commits = []
    hp = os.path.join(common.VERIF, "hook_commits.txt")
    if os.path.exists(hp):
        hooks_commits = [l.split()[0] for l in open(hp) if l.strip() and not l.startswith("#")]
    man = {
        "version": 1,
        "setup_cmd": SETUP,
        "hooks": {
            "guard": "STRAX_VERIF",
            "enable": "none needed: all monitors attach from outside (module-namespace shims, wrappers on "
            "public classes, sys.monitoring, sys.addaudithook); STRAX_VERIF is reserved and unused",
            "baseline_off_cmd": BASELINE,
            "source_commits": hooks_commits,
            "add_only": True,
        },
        "engines": [
            {
                "name": "vf-runner",
                "path": "/verif/vf/runner.py",
                "serves_properties": [c["property_id"] for c in checks],
                "kind_free_text": "runtime-monitoring harness: generated workloads against the real strax "
                "code in worker subprocesses, oracles/monitors in vf/checks, evidence + known-finding matching",
            }
        ],
        "checks": checks,
        "not_applicable": na,
        "notes": "Technique family: runtime monitoring and sanitizers. See DESIGN.md. Known findings: known_findings.json.",
    }
    with open(os.path.join(common.VERIF, "MANIFEST.json"), "w") as f:
        json.dump(man, f, indent=1)
        f.write("\n")
    print(f"MANIFEST.json: {len(checks)} checks, {len(na)} not claimed")


if __name__ == "__main__":
    main()
