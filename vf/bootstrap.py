"""Offline bootstrap of third-party helper packages (icontract, deal) into /verif/.deps."""
import os
import subprocess
import sys

from vf import common

WHEELS = "/opt/veriftools/wheels"


def ensure_deps(verbose=False):
    marker = os.path.join(common.DEPS, "icontract")
    if os.path.isdir(marker):
        if common.DEPS not in sys.path:
            sys.path.append(common.DEPS)
        return True
    if not os.path.isdir(WHEELS):
        return False
    os.makedirs(common.DEPS, exist_ok=True)
    cmd = [sys.executable, "-m", "pip", "install", "--no-index", "--find-links", WHEELS,
           "--target", common.DEPS, "--quiet", "icontract", "deal"]
    r = subprocess.run(cmd, capture_output=True, text=True)
    if verbose or r.returncode:
        print(r.stdout[-500:], r.stderr[-500:])
    if common.DEPS not in sys.path:
        sys.path.append(common.DEPS)
    return r.returncode == 0


if __name__ == "__main__":
    common.setup_env()
    ok = ensure_deps(verbose=True)
    print("deps ok:", ok)
