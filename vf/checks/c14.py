"""C14 A superrun is exactly the ordered concatenation of its subruns.

Random superruns of 1..4 subruns (each with its own chunk layout) are built through the
real Context: on the fly and written (write_superruns) then re-read from a fresh
context, with the first superrun-capable plugin at depth 1..3 of a row-wise chain,
targets at or above that level, rechunk targets spanning subrun borders, both
processors. Oracle: rows == concatenation of the subruns' own results in order of run
start (row values carry the run id); per yielded / stored chunk the recorded subruns
and spans are exactly what the chunk was built from; over all chunks every subrun's
spans tile its extent once; redefining the superrun makes stored superrun data
unavailable.
"""
import datetime
import os
import random

import numpy as np
import pytz

from vf import common

common.setup_env()
strax = common.import_strax()
from vf.checks.meta import META  # noqa: E402
from vf.harness import run as hrun  # noqa: E402

PROPERTY = "C14"
LEVEL = "exploration"
TECHNIQUE = META["C14"]["technique"]
RULE = (
    "case = (1..4 subruns with 1..6 rows and a random legal chunk layout each, depth 1..3 of the first "
    "superrun-capable plugin in a 3-level row-wise chain, target level >= depth, write_superruns on/off, rechunk "
    "target {2 rows, 5 rows, huge}, processor), drawn from VERIF_SEED; distinct by hash; non-trivial = >= 2 subruns "
    "and >= 1 row and the superrun request completed so that rows and bookkeeping were compared. Feature tags "
    "(levels_above, zero_duration_chunk_in_subrun, multi_chunk_subrun, adjacent_subruns) are part of every "
    "violation signature so that known findings are matched by mechanism"
)
ASSUMPTIONS = [
    "subrun data times increase across subruns (as for real consecutive runs); run metadata carries start/end",
    "row values encode the origin run id, so attribution is checked per row",
]
REQUIRED = {"superrun_requests": 150, "rows_compared": 300, "chunks_bookkept": 200, "stored_superruns_reread": 20,
            "redefinitions_checked": 20, "levels_above_0_ok": 30}
UNIT_TIMEOUT = 1500
DT = None


def dt():
    global DT
    if DT is None:
        DT = strax.time_fields + [(("value field v0", "v0"), np.int64)]
    return DT


DT1 = None


def dt1():
    global DT1
    if DT1 is None:
        DT1 = strax.time_fields + [(("value field v1", "v1"), np.int64)]
    return DT1


def mk(rows):
    a = np.zeros(len(rows), dtype=dt())
    if len(rows):
        a["time"] = [r[0] for r in rows]
        a["endtime"] = [r[1] for r in rows]
        a["v0"] = [r[2] for r in rows]
    return a


def plugins(depth, tsz, mixed=False):
    @strax.takes_config(strax.Option("rows_by_run", default={}, track=True),
                        strax.Option("cuts_by_run", default={}, track=False))
    class RSrc(strax.Plugin):
        provides = "src"
        depends_on = ()
        dtype = dt()
        data_kind = "src"
        rechunk_on_save = False

        def source_finished(self):
            return True

        def is_ready(self, chunk_i):
            return chunk_i < len(self.config["cuts_by_run"][self.run_id]) - 1

        def compute(self, chunk_i):
            cuts = self.config["cuts_by_run"][self.run_id]
            a = mk(self.config["rows_by_run"][self.run_id])
            s, e = cuts[chunk_i], cuts[chunk_i + 1]
            m = (a["time"] >= s) & (a["endtime"] <= e)
            if s == e:
                m[:] = False
            return self.chunk(start=s, end=e, data=a[m])

    def lvl(name, dep, allow):
        class L(strax.Plugin):
            provides = name
            depends_on = (dep,)
            dtype = dt()
            data_kind = "src"
            allow_superrun = allow
            chunk_target_size_mb = tsz

            def compute(self, src):
                r = src.copy()
                r["v0"] += 1000
                return r

        L.__name__ = "L_" + name
        return L

    class M1(strax.Plugin):
        """Second branch from the source (same kind, other field)."""
        provides = "m1"
        depends_on = ("src",)
        dtype = dt1()
        data_kind = "src"
        # same level as l1, except in the "mixed" variant (l1 computed for the superrun, m1 combined from subruns)
        allow_superrun = depth <= 1 and not mixed
        chunk_target_size_mb = tsz

        def compute(self, src):
            r = np.zeros(len(src), dtype=dt1())
            r["time"] = src["time"]
            r["endtime"] = src["endtime"]
            r["v1"] = src["v0"] * 2
            return r

    class Jn(strax.Plugin):
        """Two inputs that may reach the superrun level in different ways (stored superrun data / per-subrun
        chunks): value = l1 + 1000 exactly when the two inputs are row-aligned."""
        provides = "jn"
        depends_on = ("l1", "m1")
        dtype = dt()
        data_kind = "src"
        allow_superrun = True
        chunk_target_size_mb = tsz

        def compute(self, src):
            r = np.zeros(len(src), dtype=dt())
            r["time"] = src["time"]
            r["endtime"] = src["endtime"]
            r["v0"] = src["v0"] + 1000 + (src["v1"] - 2 * (src["v0"] - 1000))
            return r

    class Wn(strax.OverlapWindowPlugin):
        """Overlap-window plugin at the superrun level (its output chunks are cut by the window logic, i.e. Chunk.split
        with early splitting and re-concatenation on chunks that carry subrun annotations)."""
        provides = "wn"
        depends_on = ("l1",)
        dtype = dt()
        data_kind = "src"
        allow_superrun = True
        chunk_target_size_mb = tsz

        def get_window_size(self):
            return 30

        def compute(self, src):
            r = src.copy()
            r["v0"] += 1000
            return r

    return [RSrc, lvl("l1", "src", depth <= 1), lvl("l2", "l1", depth <= 2), lvl("l3", "l2", True), M1, Jn, Wn]


def gen_case(seed, idx):
    rng = random.Random(f"{seed}:c14:{idx}")
    nsub = rng.randint(1, 4)
    rows, cuts, ext = {}, {}, {}
    t = 0
    feats = {"zero_duration_chunk_in_subrun": False, "multi_chunk_subrun": False, "adjacent_subruns": False}
    # run names whose lexicographic order differs from their order in time ("8", "9", "10", "11") must work too
    base = rng.choice([0, 0, 8, 9])
    for r0 in range(nsub):
        r = base + r0
        rid = str(r)
        gap = rng.choice([0, 5000, 20000])
        if r0 and gap == 0:
            feats["adjacent_subruns"] = True
        t += gap
        t0 = t
        rr = []
        for i in range(rng.randint(1, 6)):
            # 500 ns after the start of the run = where the rechunker cuts (DEFAULT_CHUNK_SPLIT_NS / 2 before a row)
            t += rng.choice([0, 10, 500, 1500, 3000])
            ln = rng.choice([5, 50])
            rr.append((t, t + ln, r * 100 + i))
            t += ln
        end = t + rng.choice([0, 10, 2000])
        legal = [c for c in sorted(set([t0, end] + [x[0] for x in rr] + [x[1] for x in rr]))
                 if not any(x[0] < c < x[1] for x in rr)]
        k = rng.randint(0, min(4, len(legal)))
        c = [t0] + sorted(rng.choices(legal, k=k)) + [end]
        if rng.random() < 0.85:
            c = sorted(set(c))
        if any(a == b for a, b in zip(c[:-1], c[1:])):
            feats["zero_duration_chunk_in_subrun"] = True
        if len(c) > 2:
            feats["multi_chunk_subrun"] = True
        rows[rid], cuts[rid], ext[rid] = rr, c, [t0, end]
        t = end
    depth = rng.choice([1, 2, 3])
    tgt = rng.choice(["l1", "l2", "l3"][depth - 1:])
    feats["levels_above"] = ["l1", "l2", "l3"].index(tgt) + 1 - depth
    pre = None
    if rng.random() < 0.12:
        tgt = "wn"
        depth = rng.choice([1, 2])
        feats["levels_above"] = 2 - depth
        feats["window_plugin"] = True
    elif rng.random() < 0.3:
        # two-input plugin at the superrun level; optionally one input is made (and stored) for the superrun first
        tgt = "jn"
        depth = rng.choice([1, 2])
        feats["levels_above"] = 2 - depth
        if depth == 1:
            pre = rng.choice([None, "l1", "m1", "l1"])
            if rng.random() < 0.15:
                feats["mixed_input_levels"] = True
                pre = None
    return {"rows": rows, "cuts": cuts, "ext": ext, "depth": depth, "target": tgt, "pre_make": pre,
            "define_shuffle": rng.choice([0, 0, rng.randint(1, 10 ** 6)]),
            "tsz": rng.choice([24 * 2 / 1e6, 24 * 5 / 1e6, 1]), "write_superruns": rng.random() < 0.5,
            "processor": rng.choice(["single_thread", "threaded_mailbox"]), "features": feats}


def context(case, d, **kw):
    plugs = plugins(case["depth"], case["tsz"], mixed=case["features"].get("mixed_input_levels", False))
    st = strax.Context(storage=[strax.DataDirectory(d, provide_run_metadata=True)], register=plugs,
                       processors=[case["processor"]],
                       config=dict(rows_by_run={k: tuple(tuple(x) for x in v) for k, v in case["rows"].items()},
                                   cuts_by_run={k: tuple(v) for k, v in case["cuts"].items()}),
                       write_superruns=kw.pop("write_superruns", case["write_superruns"]), timeout=60,
                       # capacity above the largest lag (a two-input plugin drains its pacemaker, incl. trailing zero-duration
                       # chunks, before it comes back to the other input)
                       max_messages=30, **kw)
    return st


def write_run_docs(st, case):
    now = datetime.datetime(2020, 1, 1, tzinfo=pytz.utc)
    for r, (a, b) in case["ext"].items():
        st.storage[0].write_run_metadata(r, dict(name=r, start=now + datetime.timedelta(milliseconds=a),
                                                 end=now + datetime.timedelta(milliseconds=b), mode="m", source="s"))


def bookkeeping_errors(chunks, case, nlevels):
    """(a) rows attributed to a listed subrun whose span contains them; (b) spans inside the true extent;
    (c) spans of each subrun tile its extent exactly once over all chunks."""
    errs = []
    ext = case["ext"]
    spans = {}
    for c in chunks:
        sr = c.subruns or {}
        for row in c.data:
            rid = str((int(row["v0"]) - 1000 * nlevels) // 100)
            if rid not in sr:
                errs.append(("attribution", f"chunk [{c.start},{c.end}) carries a row of run {rid} but lists subruns {list(sr)}"))
                break
            if not (sr[rid]["start"] <= row["time"] and row["endtime"] <= sr[rid]["end"]):
                errs.append(("attribution", f"row [{int(row['time'])},{int(row['endtime'])}) of run {rid} lies outside its recorded span {sr[rid]}"))
                break
        for rid, sp in sr.items():
            spans.setdefault(rid, []).append((sp["start"], sp["end"]))
            if rid not in ext or not (ext[rid][0] <= sp["start"] <= sp["end"] <= ext[rid][1]):
                errs.append(("span-outside-run", f"chunk [{c.start},{c.end}) records span {sp} for run {rid} whose extent is {ext.get(rid)}"))
    for rid, sp in spans.items():
        sp = sorted(sp)
        if any(x[1] != y[0] for x, y in zip(sp[:-1], sp[1:])):
            errs.append(("spans-not-tiling", f"spans recorded for run {rid} do not tile its extent once: {sp} (extent {ext[rid]})"))
        elif sp and (sp[0][0] != ext[rid][0] or sp[-1][1] != ext[rid][1]):
            errs.append(("spans-not-tiling", f"spans recorded for run {rid} cover {sp[0][0]}..{sp[-1][1]}, extent is {ext[rid]}"))
    missing = [rid for rid in ext if rid not in spans]
    if missing:
        errs.append(("subrun-missing", f"no chunk records subruns {missing}"))
    return errs


def rng_name(case):
    """The superrun's name as given to define_run: strax accepts it with or without the leading underscore."""
    return "sup" if case.get("define_shuffle", 0) % 2 else "_sup"


def run_case(case):
    viol, cnt = [], {}
    feats = case["features"]

    def add(kind, text, exc=None, **extra):
        sig = {"kind": kind, "levels_above": min(feats["levels_above"], 1), "zero_duration_chunk": feats["zero_duration_chunk_in_subrun"],
               "multi_chunk_subrun": feats["multi_chunk_subrun"]}
        if feats.get("mixed_input_levels"):
            sig["mixed_input_levels"] = True
        if feats.get("window_plugin"):
            sig["window_plugin"] = True
        sig.update(extra)
        if exc is not None:
            sig.update(common.exc_sig(exc))
        if len(viol) < 6:
            viol.append({"sig": sig, "what": f"{kind}: {text}"[:700], "case": case})

    d = hrun.mktemp("c14-")
    tgt = case["target"]
    nlevels = 2 if tgt in ("jn", "wn") else ["l1", "l2", "l3"].index(tgt) + 1
    completed = False
    try:
        st = context(case, d)
        write_run_docs(st, case)
        order = sorted(case["rows"], key=lambda r: case["ext"][r][0])
        # the list may be given in any order: define_run sorts the subruns by their start time
        deforder = list(case["rows"])
        random.Random(case.get("define_shuffle", 0)).shuffle(deforder) if case.get("define_shuffle") else None
        st.define_run("_sup", deforder)
        spec_order = list(st.run_metadata("_sup", projection="sub_run_spec")["sub_run_spec"])
        cnt["definitions_checked"] = 1
        if spec_order != order:
            add("definition-order", f"define_run({deforder}) stored the subruns as {spec_order}, order of run start is {order}")
        try:
            with common.quiet():
                sub = [context(case, d).get_array(r, tgt, progress_bar=False) for r in order]
        except Exception as e:  # noqa: BLE001
            add("subrun-exception", f"plain run failed: {e!r}", e)
            return viol, cnt, False
        ref = np.concatenate(sub)
        try:
            with common.quiet():
                if case.get("pre_make"):
                    # history: one input of the target is requested (and, with write_superruns, stored) for
                    # the superrun before the target itself
                    context(case, d, write_superruns=True).make("_sup", case["pre_make"], progress_bar=False)
                    cnt["pre_made_inputs"] = 1
                chunks = list(st.get_iter("_sup", tgt, progress_bar=False))
        except Exception as e:  # noqa: BLE001
            if "Timeout" in type(e).__name__:
                return viol, cnt, False
            add("exception", f"superrun request failed: {e!r}", e)
            return viol, cnt, False
        completed = True
        cnt["superrun_requests"] = 1
        got = np.concatenate([c.data for c in chunks])
        cnt["rows_compared"] = len(got)
        if not (len(got) == len(ref) and got.tobytes() == ref.tobytes()):
            add("rows", f"superrun rows {got['v0'].tolist()} != concatenated subruns {ref['v0'].tolist()}")
        cnt["chunks_bookkept"] = len(chunks)
        errs = bookkeeping_errors(chunks, case, nlevels)
        for kind, text in errs[:2]:
            add(kind, text, where="yielded")
        if not errs and feats["levels_above"] == 0:
            cnt["levels_above_0_ok"] = 1
        # ---- written superrun re-read from a fresh context
        if case["write_superruns"]:
            st2 = context(case, d)
            if st2.is_stored("_sup", tgt):
                try:
                    with common.quiet():
                        chunks2 = list(st2.get_iter("_sup", tgt, progress_bar=False))
                    got2 = np.concatenate([c.data for c in chunks2])
                    cnt["stored_superruns_reread"] = 1
                    if not (len(got2) == len(ref) and got2.tobytes() == ref.tobytes()):
                        add("rows", "stored superrun re-read differs from the concatenated subruns", where="stored")
                    for kind, text in bookkeeping_errors(chunks2, case, nlevels)[:2]:
                        add(kind, text, where="stored")
                    # a time range that starts inside a row: the loader moves the cut to the start of that row, the
                    # recorded spans must move with it (rows stay inside the span recorded for their run)
                    if len(ref) >= 2:
                        mid = ref[len(ref) // 2]
                        lo, hi = int(mid["time"]) + 1, int(ref["endtime"].max())
                        if int(mid["endtime"]) > lo:
                            with common.quiet():
                                chunks3 = list(st2.get_iter("_sup", tgt, time_range=(lo, hi), time_selection="touching", progress_bar=False))
                            cnt["time_range_reads"] = 1
                            for c in chunks3:
                                sr = c.subruns or {}
                                for row in c.data:
                                    rid = str((int(row["v0"]) - 1000 * nlevels) // 100)
                                    if rid in sr and not (sr[rid]["start"] <= row["time"] and row["endtime"] <= sr[rid]["end"]):
                                        add("attribution", f"time-range read ({lo},{hi}): row [{int(row['time'])},{int(row['endtime'])}) of run "
                                                           f"{rid} lies outside the span {sr[rid]} recorded by chunk [{c.start},{c.end})", where="stored-range")
                                        break
                except Exception as e:  # noqa: BLE001
                    add("exception", f"re-reading the stored superrun failed: {e!r}", e, where="stored")
                # redefinition: another subrun list must not see the stored data
                if len(order) >= 2:
                    st3 = context(case, d)
                    st3.define_run("_sup", order[:-1])
                    cnt["redefinitions_checked"] = 1
                    if st3.is_stored("_sup", tgt):
                        add("stale-superrun", f"after redefining _sup as {order[:-1]} the data stored for {order} is still reported available")
                # the same redefinition through the LONG-LIVED context that made the data (its caches must not
                # keep the old definition alive), with the name given with and without the leading underscore
                if len(order) >= 2:
                    alt = order[1:]
                    st.define_run(rng_name(case), alt)
                    cnt["redefinitions_checked"] = cnt.get("redefinitions_checked", 0) + 1
                    try:
                        stale = st.is_stored("_sup", tgt)
                    except Exception as e:  # noqa: BLE001
                        stale = False
                        add("exception", f"is_stored after redefining _sup on the same context failed: {e!r}", e, where="redefined")
                    if stale:
                        add("stale-superrun", f"after define_run({rng_name(case)!r}, {alt}) on the context that made the data, the data "
                                              f"stored for {order} is still reported available", redefinition="same_context")
                    else:
                        try:
                            with common.quiet():
                                got3 = st.get_array("_sup", tgt, progress_bar=False)
                            ref3 = np.concatenate([sub[order.index(r)] for r in alt])
                            if not (len(got3) == len(ref3) and got3.tobytes() == ref3.tobytes()):
                                add("rows", f"after redefining _sup as {alt} on the same context it returns {got3['v0'].tolist()}, "
                                            f"the subruns concatenate to {ref3['v0'].tolist()}", where="redefined")
                        except Exception as e:  # noqa: BLE001
                            add("exception", f"request after redefining _sup on the same context failed: {e!r}", e, where="redefined")
                # same run ids, but only a time range of the first run
                st4 = context(case, d)
                a0, b0 = case["ext"][order[0]]
                spec = {r: "all" for r in order}
                spec[order[0]] = [a0, a0 + max(1, (b0 - a0) // 2)]
                st4.define_run("_sup", spec)
                cnt["redefinitions_checked"] = cnt.get("redefinitions_checked", 0) + 1
                if st4.is_stored("_sup", tgt):
                    add("stale-superrun", f"after redefining _sup with a time range for run {order[0]} ({spec[order[0]]}) the data "
                                          f"stored for the full runs is still reported available", redefinition="time_range")
            else:
                add("not-stored", f"write_superruns is on but {tgt} of _sup is not stored after the request")
    finally:
        hrun.rm(d)
    return viol, cnt, completed and len(case["rows"]) >= 2


def units(tier, seed):
    q = tier == "quick"
    n = 16 if q else 64
    per = 20 if q else 150
    return [{"name": f"sup-{k}", "seed": seed, "lo": k * per, "hi": (k + 1) * per} for k in range(n)]


def run_unit(u):
    res = {"evaluations": 0, "hashes": [], "counters": {}, "samples": [], "violations": [], "inconclusive": []}
    for idx in range(u["lo"], u["hi"]):
        case = gen_case(u["seed"], idx)
        viol, cnt, nt = run_case(case)
        res["evaluations"] += 1
        if nt:
            res["hashes"].append(common.chash(case))
        for k, v in cnt.items():
            res["counters"][k] = res["counters"].get(k, 0) + v
        if len(res["violations"]) < 25:
            res["violations"].extend(viol[:2])
        if not res["samples"] and nt:
            res["samples"].append(case)
    return res


def replay(case):
    viol, cnt, nt = run_case(case)
    return viol


def _exercise():
    for i in range(8):
        run_case(gen_case(4242, i))


def warm():
    _exercise()


def prefork():
    _exercise()
