"""C13 Production is limited by demand and buffer capacity (backpressure).

The consumer of get_iter pulls k chunks and then stops pulling. Under the cooperative
scheduler the rest of the pipeline runs until no thread is runnable (quiescence is
*detected*, not waited for); the monitors then read: how many source chunks were
produced, the largest number of messages every mailbox ever held (recorded at every
heap push), and - in lazy mode - the demand state of the fed mailbox at every producer
advance.
"""
import heapq as _heapq

import numpy as np

from vf import common

common.setup_env()
strax = common.import_strax()
import strax.mailbox as smb  # noqa: E402
import strax.processors.threaded_mailbox as tmb  # noqa: E402

from vf.checks.meta import META  # noqa: E402
from vf.harness import run as hrun, plugins as hp  # noqa: E402
from vf.sched import coop, shims  # noqa: E402

PROPERTY = "C13"
LEVEL = "exploration"
TECHNIQUE = META["C13"]["technique"]
RULE = (
    "execution = (graph in {chain, diamond, multi-output with discarded side output, multi-output with saved side "
    "output, chain with savers}, capacity 1..4, lazy/eager, consumer pause point k in 1..3, run length N in "
    "{N0, 2 N0, 4 N0}, schedule in {upstream-first adversarial, downstream-first, seeded random, PCT}); distinct "
    "= (configuration, interleaving signature); non-trivial = the pipeline reached quiescence with the consumer "
    "parked (detected by the scheduler) and N exceeded the bound, so that the run could not simply complete"
)
ASSUMPTIONS = [
    "quiescence = no controlled thread runnable while the consumer is parked (decidable under the cooperative "
    "scheduler); the bound k + sum over mailboxes (capacity + 2) + 2 x plugins is deliberately generous",
    "lazy demand check: at every producer advance the fed mailbox is killed or a driving subscriber waits for a "
    "message number that is not in the mailbox",
]
REQUIRED = {"quiescent_runs": 300, "n_independence_checks": 30, "capacity_observations": 300,
            "lazy_demand_checks": 300, "scheduling_points": 50000}
UNIT_TIMEOUT = 1500


def graph(name, n):
    rows = [(10 * i, 10 * i + 2, i + 1) for i in range(n)]
    cuts = [10 * i for i in range(n + 1)]
    src = {"name": "ev", "kind": "ev", "rows": rows, "cuts": cuts, "save_when": "NEVER"}
    nv = "NEVER"
    if name == "chain":
        pl = [{"name": "r1", "type": "row", "deps": ["ev"], "field": "v1", "save_when": nv},
              {"name": "top", "type": "row", "deps": ["r1"], "field": "v2", "save_when": nv}]
    elif name == "chain_savers":
        src["save_when"] = "ALWAYS"
        pl = [{"name": "r1", "type": "row", "deps": ["ev"], "field": "v1", "save_when": "ALWAYS", "rechunk_on_save": False},
              {"name": "top", "type": "row", "deps": ["r1"], "field": "v2", "save_when": "ALWAYS", "rechunk_on_save": False}]
    elif name == "diamond":
        pl = [{"name": "r1", "type": "row", "deps": ["ev"], "field": "v1", "save_when": nv},
              {"name": "r2", "type": "row", "deps": ["ev"], "field": "v2", "save_when": nv},
              {"name": "top", "type": "row", "deps": ["r1", "r2"], "field": "v0", "save_when": nv}]
    elif name == "multi_discard":
        pl = [{"name": "m", "type": "multi", "deps": ["ev"], "field_a": "v1", "save_when": {"ma": nv, "mb": nv}},
              {"name": "top", "type": "row", "deps": ["ma"], "field": "v2", "save_when": nv}]
    elif name == "multi_saved":
        pl = [{"name": "m", "type": "multi", "deps": ["ev"], "field_a": "v1", "save_when": {"ma": nv, "mb": "ALWAYS"},
               "rechunk_on_save": {"ma": False, "mb": False}},
              {"name": "top", "type": "row", "deps": ["ma"], "field": "v2", "save_when": nv}]
    else:
        raise ValueError(name)
    return {"sources": [src], "plugins": pl}


GRAPHS = ("chain", "chain_savers", "diamond", "multi_discard", "multi_saved")


class Probe:
    """Captures the processor's mailboxes and checks the lazy demand condition at producer advances."""

    def __init__(self):
        self.mailboxes = {}
        self.maxlen = {}
        self.demand_checks = 0
        self.demand_violations = []
        self.lazy = False

    def heappush(self, lst, item):
        _heapq.heappush(lst, item)
        k = id(lst)
        if len(lst) > self.maxlen.get(k, 0):
            self.maxlen[k] = len(lst)

    def heappop(self, lst):
        return _heapq.heappop(lst)

    def demand_ok(self, mb):
        if mb.killed:
            return True
        for can_drive, w in zip(mb._subscriber_can_drive, mb._subscriber_waiting_for):
            if can_drive and w is not None and not any(n == w for n, _ in mb._mailbox):
                return True
        return False


def run_one(gname, n, cap, lazy, k, chooser, storage, pool=False, loaded=False):
    spec = graph(gname, n)
    if pool:
        # computations go through the worker pool (lazy mode is then switched off by the processor even if it
        # was allowed: every mailbox must still respect its capacity)
        for p in spec["plugins"]:
            if p["type"] in ("row", "multi"):
                p["parallel"] = "thread"
    probe = Probe()
    probe.lazy = lazy and not pool
    probe.required = {"top"} | {d for p in spec["plugins"] for d in p["deps"]}
    out = {}
    d = hrun.mktemp("c13-") if (storage or loaded) else None
    reads = {"n": 0}
    orig_read = strax.FileSytemBackend._read_chunk
    if loaded:
        spec["sources"][0]["save_when"] = "ALWAYS"
        spec["sources"][0]["rechunk_on_save"] = False
        # the source is not computed but loaded from storage: make it first (outside the scheduler), then count
        # how many of its chunk files the pipeline reads
        with common.quiet():
            hrun.make_context(spec, d, {"processor": "single_thread"}).make("0", "ev", save=("ev",), progress_bar=False)

        def counting_read(backend, dirname, chunk_info, dtype, compressor):
            reads["n"] += 1
            return orig_read(backend, dirname, chunk_info, dtype, compressor)

        strax.FileSytemBackend._read_chunk = counting_read
    sched = coop.Sched(chooser=chooser, max_steps=400000)
    orig_init = tmb.ThreadedMailboxProcessor.__init__
    orig_heapq = smb.heapq
    orig_record = hp._record

    def init(self, *a, **kw):
        orig_init(self, *a, **kw)
        probe.mailboxes = dict(self.mailboxes)

    def record(ev):
        orig_record(ev)
        if not probe.lazy or not probe.mailboxes:
            return
        name = ev.get("p")
        # which mailboxes does this producer feed?
        # outputs that nobody requires flow freely by design (they never gate the producer)
        fed = [m for key, m in probe.mailboxes.items()
               if (key == name or key in (name + "a", name + "b")) and key in probe.required]
        for m in fed:
            if any(not can for can in m._subscriber_can_drive) and not any(m._subscriber_can_drive):
                continue  # only non-driving readers (e.g. savers): flows freely
            probe.demand_checks += 1
            if not probe.demand_ok(m):
                probe.demand_violations.append(
                    f"{name} advanced while mailbox {m.name} had no driving reader waiting for an absent message: "
                    f"waiting_for={m._subscriber_waiting_for} can_drive={m._subscriber_can_drive} held={[x for x, _ in m._mailbox]}")

    tmb.ThreadedMailboxProcessor.__init__ = init
    smb.heapq = probe
    hp._record = record
    try:
        with shims.coop_pipeline(sched):
            sched.register_main()
            hp.reset_events()
            cfg = {"processor": "threaded_mailbox", "allow_lazy": lazy, "max_messages": cap, "timeout": 1000}
            st = hrun.make_context(spec, d, cfg)
            got = 0
            try:
                with common.quiet():
                    it = st.get_iter("0", "top", progress_bar=False, max_workers=2 if pool else None)
                    for c in it:
                        got += 1
                        if got == k:
                            break
                    sched.park()
                out["quiescent"] = sched.quiescent
                out["deadlock"] = None
            except coop.Deadlock as e:
                out["deadlock"] = str(e)
                out["quiescent"] = False
            evs = hp.events()
            out["source_calls"] = reads["n"] if loaded else sum(1 for e in evs if e.get("src"))
            out["clock"] = sched.clock
            out["steps"] = sched.steps
            out["sig"] = sched.signature()
            out["choices"] = list(sched.choices)
            out["held"] = {name: probe.maxlen.get(id(m._mailbox), 0) for name, m in probe.mailboxes.items()}
            out["caps"] = {name: m.max_messages for name, m in probe.mailboxes.items()}
            out["n_mailboxes"] = len(probe.mailboxes)
            out["demand_checks"] = probe.demand_checks
            out["demand_violations"] = probe.demand_violations[:3]
            sched.abort()
        left = sched.join_real(120.0)
        out["stuck_after_abort"] = left
    finally:
        strax.FileSytemBackend._read_chunk = orig_read
        tmb.ThreadedMailboxProcessor.__init__ = orig_init
        smb.heapq = orig_heapq
        hp._record = orig_record
        if d:
            hrun.rm(d)
    out["n_plugins"] = len(spec["plugins"]) + 1
    return out


def bound(out, cap, k):
    return k + out["n_mailboxes"] * (cap + 2) + 2 * out["n_plugins"]


def judge(cfg, out):
    v = []
    if out.get("deadlock"):
        v.append(("deadlock", f"deadlock before quiescence: {out['deadlock']}"))
        return v
    if not out["quiescent"]:
        v.append(("no-quiescence", "the consumer's park returned without the scheduler detecting quiescence"))
    b = bound(out, cfg["capacity"], cfg["k"])
    if out["source_calls"] > b:
        v.append(("unbounded-production", f"{out['source_calls']} source chunks produced after the consumer stopped at k={cfg['k']} "
                                          f"(bound {b}, run length {cfg['n']})"))
    if cfg["lazy"] and not cfg.get("pool") and out["source_calls"] > cfg["k"] + 1:
        # behavioural form of the lazy clause (it does not trust the mailboxes' own can_drive flags): the consumer asked
        # for k chunks, nobody else may make the source advance (measured overshoot on the unchanged code: 0)
        v.append(("lazy-overshoot", f"lazy mode: the consumer pulled {cfg['k']} chunks and stopped, the source was advanced "
                                    f"{out['source_calls']} times (capacity {cfg['capacity']})"))
    if not cfg["lazy"] or cfg.get("pool"):
        for name, h in out["held"].items():
            if h > out["caps"][name]:
                v.append(("capacity", f"mailbox {name} held {h} messages, capacity {out['caps'][name]}"))
    for t in out["demand_violations"]:
        v.append(("lazy-demand", t))
    return v


def configs():
    cfgs = []
    for g in GRAPHS:
        for cap in (1, 2, 3, 4):
            for lazy in (True, False):
                for k in (1, 2, 3):
                    cfgs.append({"graph": g, "capacity": cap, "lazy": lazy, "k": k})
    # worker pool (max_workers = 2) with lazy mode allowed (the default) and forbidden
    for g in ("chain_savers", "multi_saved", "diamond"):
        for cap in (1, 2, 4):
            for lazy in (True, False):
                cfgs.append({"graph": g, "capacity": cap, "lazy": lazy, "k": 2, "pool": True})
    # the source data is loaded from storage (the loader is the producer), with and without a worker pool
    for cap in (1, 3):
        for lazy in (True, False):
            for pool in (False, True):
                cfgs.append({"graph": "chain", "capacity": cap, "lazy": lazy, "k": 2, "pool": pool, "loaded": True})
    return cfgs


def units(tier, seed):
    n = 32
    return [{"name": f"bp-{i}", "shard": i, "nshards": n, "seed": seed, "tier": tier} for i in range(n)]


def run_unit(u):
    res = {"evaluations": 0, "hashes": [], "counters": {}, "samples": [], "violations": [], "inconclusive": []}
    cnt = res["counters"]
    q = u["tier"] == "quick"
    N0 = 60

    def add(cfg, kind, text, out):
        if len(res["violations"]) < 15:
            res["violations"].append({"sig": {"kind": kind, "lazy": cfg["lazy"], "graph": cfg["graph"], "pool": bool(cfg.get("pool"))},
                                      "what": f"{kind}: {text}"[:600], "case": {"cfg": cfg, "choices": out.get("choices", [])[:20000]}})

    for ci, base in enumerate(configs()):
        if ci % u["nshards"] != u["shard"]:
            continue
        storage = base["graph"] in ("chain_savers", "multi_saved")

        def one(n, chooser, label):
            cfg = dict(base, n=n, schedule=label)
            out = run_one(base["graph"], n, base["capacity"], base["lazy"], base["k"], chooser, storage, pool=base.get("pool", False), loaded=base.get("loaded", False))
            res["evaluations"] += 1
            cnt["scheduling_points"] = cnt.get("scheduling_points", 0) + out["steps"]
            if out["quiescent"]:
                cnt["quiescent_runs"] = cnt.get("quiescent_runs", 0) + 1
                res["hashes"].append(common.chash([cfg, out["sig"]]))
            cnt["capacity_observations"] = cnt.get("capacity_observations", 0) + len(out.get("held", {}))
            cnt["lazy_demand_checks"] = cnt.get("lazy_demand_checks", 0) + out.get("demand_checks", 0)
            if out.get("stuck_after_abort"):
                res["inconclusive"].append(f"threads did not unwind after abort: {out['stuck_after_abort'][:3]}")
            for kind, text in judge(cfg, out):
                add(cfg, kind, text, out)
            return out

        up = ["source:", "build:ev", "load:", "build:", "divide_outputs", "read_", "save", "discard"]
        counts = []
        for n in (N0, 2 * N0) if q else (N0, 2 * N0, 4 * N0):
            o = one(n, coop.NamedPriorityChooser(up), "upstream-first")
            counts.append(o["source_calls"])
        cnt["n_independence_checks"] = cnt.get("n_independence_checks", 0) + 1
        if len(set(counts)) != 1:
            add(dict(base, n=N0), "length-dependent", f"source chunks produced after the consumer stopped depend on the run length: {counts}", {"choices": []})
        one(N0, coop.NamedPriorityChooser(list(reversed(up))), "downstream-first")
        # lazy mailboxes with several subscribers (a saver or a second branch beside the driving reader) have the
        # narrow windows (sender re-checks demand between a send and the wake-up of the reader): more PCT runs
        multi_sub = base["lazy"] and not base.get("pool") and base["graph"] in ("chain_savers", "multi_saved", "diamond")
        for j in range(2 if q else 25):
            one(N0, coop.RandomChooser(u["seed"] * 1009 + ci * 17 + j), "random")
        for j in range((10 if multi_sub else 1) if q else (60 if multi_sub else 10)):
            one(N0, coop.PCTChooser(u["seed"] * 2003 + ci * 19 + j, depth=4, horizon=2000), "pct")
        if not res["samples"]:
            res["samples"].append({"cfg": base, "source_chunks_after_stop(N,2N,..)": counts})
    return res


def replay(case):
    cfg = case["cfg"]
    storage = cfg["graph"] in ("chain_savers", "multi_saved")
    out = run_one(cfg["graph"], cfg.get("n", 60), cfg["capacity"], cfg["lazy"], cfg["k"],
                  coop.ReplayChooser(case.get("choices", [])), storage, pool=cfg.get("pool", False), loaded=cfg.get("loaded", False))
    return [{"sig": {"kind": k}, "what": t, "case": case} for k, t in judge(cfg, out)]


def _exercise():
    for g in GRAPHS:
        run_one(g, 20, 2, True, 1, coop.RandomChooser(1), g in ("chain_savers", "multi_saved"))


def warm():
    hrun.warm_numba()
    _exercise()


def prefork():
    _exercise()
