"""C10 Time-range, row and column selections commute with chunking and storage.

Data is stored through the real pipeline (original or rechunked layout), then
get_array is called with time ranges (absolute / seconds since run start / taken from
a row) in both time-selection modes, with selection strings / callables and keep /
drop column sets, for one and for two same-kind targets, under both processors.
Oracle: the unrestricted get_array result filtered by an independent numpy predicate
and projected; explicit error when the range overlaps no chunk; empty result when it
contains no row; storage listing unchanged by partial requests.
"""
import os

import numpy as np

from vf import common

common.setup_env()
strax = common.import_strax()
from vf.checks.meta import META  # noqa: E402
from vf.harness import gen, oracle, run as hrun, plugins as hp  # noqa: E402
from vf.mon import chunklaws as cl  # noqa: E402

PROPERTY = "C10"
LEVEL = "exploration"
TECHNIQUE = META["C10"]["technique"]
RULE = (
    "layout = (rows incl. overlapping, on-disk chunking original or rechunked, time unit, processor, 1 or 2 "
    "same-kind targets); per layout every range (a, b), a <= b, with endpoints on / one unit inside / one unit "
    "outside every row and chunk boundary is queried in both time-selection modes (exhaustive per layout), "
    "plus a fixed family of selection strings/callables x keep/drop column sets x range kinds (time_range, "
    "seconds_range, time_within); distinct = (layout hash, query); non-trivial = layout has >= 2 stored chunks "
    "and >= 1 row and the query returned or raised as classified"
)
ASSUMPTIONS = [
    "the unrestricted get_array result of the same stored data is the reference (its correctness is C01/C03)",
    "degenerate ranges a == b are accepted either way (statement leaves them open)",
]
REQUIRED = {"queries": 3000, "nonempty_results": 500, "no_chunk_errors": 50, "empty_results": 100,
            "selection_queries": 100, "column_queries": 100, "seconds_queries": 20, "within_queries": 20,
            "listing_checks": 1000, "two_target_queries": 200, "computed_partial_queries": 300}
UNIT_TIMEOUT = 1200

SELECTIONS = [
    ("v0 > 2", lambda x: x["v0"] > 2),
    ("(v0 % 2) == 0", lambda x: x["v0"] % 2 == 0),
    (("v0 > 1", "time >= 0"), lambda x: (x["v0"] > 1) & (x["time"] >= 0)),
    ("CALLABLE", lambda x: x["v0"] < 4),
    ("endtime - time > {u}", None),
]


def listing(d):
    out = []
    for root, dirs, files in os.walk(d):
        for f in files:
            out.append(os.path.relpath(os.path.join(root, f), d))
    return sorted(out)


def gen_layout(seed, idx):
    rng = gen.rng_for(seed, "c10", idx)
    unit = rng.choice([1, 1, 400, 125_000_000])
    t0 = {1: rng.choice([0, 3]), 400: rng.choice([0, 800]), # epoch-scale timestamps (beyond 2**53 ns): where float arithmetic on times stops being exact
          125_000_000: rng.choice([3_000_000_000, 1_700_000_003_000_000_000])}[unit]
    rows = []
    t = t0
    for i in range(rng.randint(1, 6)):
        t += rng.choice([0, 0, 1, 2, 4]) * unit
        ln = rng.choice([1, 2, 3, 5]) * unit
        rows.append((t, t + ln, i + 1))
        if rng.random() < 0.7:
            t += ln
    t1 = max(r[1] for r in rows) + rng.choice([0, 2]) * unit
    cuts = gen.gen_cuts(rng, rows, t0, t1, unit, max_inner=4)
    rechunk = unit == 400 and rng.random() < 0.7
    cuts2 = None
    if rng.random() < 0.25:
        # a second stored data type of the same kind (same rows, other field) with its OWN chunk layout
        cuts2 = gen.gen_cuts(rng, rows, t0, t1, unit, max_inner=4)
    return {"rows": rows, "cuts": cuts, "cuts2": cuts2, "unit": unit, "t0": t0, "t1": t1, "rechunk": rechunk,
            "target_rows": rng.choice([1, 2, 3]), "processor": rng.choice(["single_thread", "threaded_mailbox"]),
            "two_targets": rng.random() < 0.4, "seed": rng.randint(0, 10 ** 6)}


def build_spec(lay):
    src = {"name": "ev", "kind": "ev", "rows": lay["rows"], "cuts": lay["cuts"], "rechunk_on_save": lay["rechunk"],
           "chunk_target_size_mb": (lay["target_rows"] * 24 + 12) / 1e6}
    r1 = {"name": "r1", "type": "row", "deps": ["ev"], "c": 1, "field": "v1", "rechunk_on_save": lay["rechunk"],
          "chunk_target_size_mb": ((lay["target_rows"] + 1) * 24 + 12) / 1e6}
    srcs = [src]
    if lay.get("cuts2"):
        srcs.append({"name": "e2", "kind": "ev", "rows": lay["rows"], "cuts": lay["cuts2"], "field": "v2", "rechunk_on_save": False})
    return {"sources": srcs, "plugins": [r1]}


def ref_filter(full, a, b, mode, sel, keep, drop):
    x = full
    if a is not None:
        if mode == "fully_contained":
            x = x[(a <= x["time"]) & (x["endtime"] <= b)]
        else:
            x = x[(x["endtime"] > a) & (x["time"] < b)]
    if sel is not None:
        x = x[sel(x)]
    names = list(full.dtype.names)
    if keep is not None:
        names = [n for n in names if n in keep]
    if drop is not None:
        names = [n for n in names if n not in drop]
    return x, names


def same_rows(got, want, names):
    if list(got.dtype.names) != names:
        return False
    if len(got) != len(want):
        return False
    return all(np.array_equal(got[n], want[n]) for n in names)


def run_layout(lay, quick):
    import random

    viol, cnt, hashes = [], {}, []
    lh = common.chash(lay)
    state = {}

    def add(kind, what, q, exc=None):
        sig = {"kind": kind, "mode": q.get("mode"), "range_kind": q.get("rk")}
        if state.get("unaligned"):
            sig["unaligned_two_targets"] = True
        if exc is not None:
            sig.update(common.exc_sig(exc))
        if len(viol) < 10:
            viol.append({"sig": sig, "what": f"{kind}: {what}"[:700], "case": {"layout": lay, "query": q}})

    spec = build_spec(lay)
    d = hrun.mktemp("c10-")
    try:
        cfg = {"processor": lay["processor"], "max_messages": 50, "timeout": 60}
        st = hrun.make_context(spec, d, cfg)
        with common.quiet():
            st.make("0", "r1", progress_bar=False)
        targets = ("ev", "r1") if lay["two_targets"] else ("ev",)
        if lay.get("cuts2"):
            with common.quiet():
                st.make("0", "e2", progress_bar=False)
            targets = ("ev", "e2")
            cnt["independent_layout_pairs"] = cnt.get("independent_layout_pairs", 0) + 1
        tg = targets if len(targets) > 1 else targets[0]
        with common.quiet():
            full = st.get_array("0", tg, progress_bar=False)
        md = st.get_metadata("0", "ev")
        chunk_bounds = sorted({c["start"] for c in md["chunks"]} | {c["end"] for c in md["chunks"]})
        run_start, run_end = md["chunks"][0]["start"], md["chunks"][-1]["end"]
        if len(targets) > 1:
            md2 = st.get_metadata("0", targets[1])
            # the two requested types are stored in different chunk layouts (mechanism of known finding F28)
            state["unaligned"] = [(c["start"], c["end"]) for c in md["chunks"]] != [(c["start"], c["end"]) for c in md2["chunks"]]
            chunk_bounds = sorted(set(chunk_bounds) | {c["start"] for c in md2["chunks"]} | {c["end"] for c in md2["chunks"]})
        nstored = len(md["chunks"])
        before = listing(d)
        u = lay["unit"]
        pts = set()
        for x in chunk_bounds + [r[0] for r in lay["rows"]] + [r[1] for r in lay["rows"]]:
            pts.update([x - u, x, x + u])
        pts = sorted(p for p in pts if p >= 0)
        rng = random.Random(lay["seed"])
        queries = []
        pairs = [(a, b) for a in pts for b in pts if a <= b]
        if quick and len(pairs) > 150:
            pairs = rng.sample(pairs, 150)
        for a, b in pairs:
            for mode in ("fully_contained", "touching"):
                queries.append({"rk": "time_range", "a": a, "b": b, "mode": mode})
        # richer queries
        for _ in range(12 if quick else 40):
            a, b = sorted(rng.sample(pts, 2)) if len(pts) > 1 else (pts[0], pts[0])
            q = {"rk": rng.choice(["time_range", "time_range", "none"]), "a": a, "b": b,
                 "mode": rng.choice(["fully_contained", "touching"])}
            if rng.random() < 0.6:
                q["sel"] = rng.randrange(len(SELECTIONS))
            c = rng.random()
            cols = [n for n in full.dtype.names]
            if c < 0.3:
                q["keep"] = sorted(rng.sample(cols, rng.randint(1, len(cols))))
            elif c < 0.6:
                q["drop"] = sorted(rng.sample(cols, rng.randint(1, len(cols) - 1)))
            queries.append(q)
        if u == 125_000_000:
            for _ in range(10):
                a, b = sorted(rng.sample(pts, 2))
                queries.append({"rk": "seconds_range", "a": a, "b": b, "mode": rng.choice(["fully_contained", "touching"])})
        for i in range(min(3, len(full))):
            queries.append({"rk": "time_within", "row": i, "a": int(full["time"][i]), "b": int(full["endtime"][i]),
                            "mode": rng.choice(["fully_contained", "touching"])})

        for q in queries:
            a, b, mode = q["a"], q["b"], q["mode"]
            kw = {"time_selection": mode}
            if q["rk"] == "time_range":
                kw["time_range"] = (a, b)
            elif q["rk"] == "seconds_range":
                base = (run_start // 10 ** 9) * 10 ** 9
                kw["seconds_range"] = ((a - base) / 1e9, (b - base) / 1e9)
                cnt["seconds_queries"] = cnt.get("seconds_queries", 0) + 1
            elif q["rk"] == "time_within":
                kw["time_within"] = full[q["row"]]
                cnt["within_queries"] = cnt.get("within_queries", 0) + 1
            sel_fn = None
            if "sel" in q:
                s, fn = SELECTIONS[q["sel"]]
                if fn is None:
                    s = s.format(u=u)
                    fn = lambda x, _u=u: (x["endtime"] - x["time"]) > _u  # noqa: E731
                kw["selection"] = fn if s == "CALLABLE" else s
                sel_fn = fn
                cnt["selection_queries"] = cnt.get("selection_queries", 0) + 1
            if "keep" in q:
                kw["keep_columns"] = tuple(q["keep"])
                cnt["column_queries"] = cnt.get("column_queries", 0) + 1
            if "drop" in q:
                kw["drop_columns"] = tuple(q["drop"])
                cnt["column_queries"] = cnt.get("column_queries", 0) + 1
            ranged = q["rk"] != "none"
            ra, rb = (a, b) if ranged else (None, None)
            want, names = ref_filter(full, ra, rb, mode, sel_fn, q.get("keep"), q.get("drop"))
            overlaps_chunk = (not ranged) or (a < run_end and b > run_start)
            cnt["queries"] = cnt.get("queries", 0) + 1
            if len(targets) > 1:
                cnt["two_target_queries"] = cnt.get("two_target_queries", 0) + 1
            try:
                with common.quiet():
                    got = st.get_array("0", tg, progress_bar=False, **kw)
                exc = None
            except Exception as e:  # noqa: BLE001
                got, exc = None, e
                if "Timeout" in type(e).__name__:
                    continue
            if nstored >= 2 and len(lay["rows"]):
                hashes.append(common.chash([lh, q]))
            degenerate = ranged and a == b
            if exc is not None:
                if overlaps_chunk and not degenerate:
                    add("exception", f"query {kw} failed although the range overlaps stored chunks: {exc!r}", q, exc)
                else:
                    cnt["no_chunk_errors"] = cnt.get("no_chunk_errors", 0) + 1
            else:
                if not overlaps_chunk and not degenerate:
                    add("no-error", f"range ({a},{b}) overlaps no chunk (run [{run_start},{run_end})) but returned {len(got)} rows", q)
                elif not same_rows(got, want, names):
                    add("rows", f"query {kw}: got {got.tolist()} {got.dtype.names} want {want[names].tolist() if names else []} {names}", q)
                elif len(got):
                    cnt["nonempty_results"] = cnt.get("nonempty_results", 0) + 1
                else:
                    cnt["empty_results"] = cnt.get("empty_results", 0) + 1
            if q["rk"] != "none" or "sel" in q or "keep" in q or "drop" in q:
                cnt["listing_checks"] = cnt.get("listing_checks", 0) + 1
                after = listing(d)
                if after != before:
                    add("saved", f"partial request changed the storage: {sorted(set(after) ^ set(before))[:5]}", q)
                    before = after
        # ---- partial requests for data that has to be computed on the fly (outputs with policy EXPLICIT next to an
        # ALWAYS sibling that is not stored yet): right rows, and nothing at all may be saved
        spec2 = build_spec(lay)
        spec2["plugins"] += [
            {"name": "m", "type": "multi", "deps": ["ev"], "save_when": {"ma": "EXPLICIT", "mb": "ALWAYS"}, "rechunk_on_save": False},
            {"name": "r2", "type": "row", "deps": ["ev"], "c": 2, "field": "v2", "save_when": "EXPLICIT", "rechunk_on_save": False}]
        full2 = oracle.whole_run(spec2)
        before = listing(d)
        inside = [(a, b) for a, b in pairs if a < b and a < run_end and b > run_start]
        for tgt2 in ("ma", "r2"):
            qs = [{"rk": "time_range", "a": a, "b": b, "mode": mode} for a, b in rng.sample(inside, min(3, len(inside)))
                  for mode in ("fully_contained", "touching")]
            qs += [{"rk": "none", "a": None, "b": None, "mode": "fully_contained", "keep": ["time", "endtime"]},
                   {"rk": "none", "a": None, "b": None, "mode": "fully_contained", "sel": 4}]
            for q in qs:
                q = dict(q, computed=tgt2)
                kw = {"time_selection": q["mode"]}
                sel_fn = None
                if q["rk"] == "time_range":
                    kw["time_range"] = (q["a"], q["b"])
                if "keep" in q:
                    kw["keep_columns"] = tuple(q["keep"])
                if "sel" in q:
                    sname, fn = SELECTIONS[q["sel"]]
                    if fn is None:
                        sname = sname.format(u=u)
                        fn = lambda x, _u=u: (x["endtime"] - x["time"]) > _u  # noqa: E731
                    kw["selection"] = fn if sname == "CALLABLE" else sname
                    sel_fn = fn
                want, names = ref_filter(full2[tgt2], q["a"], q["b"], q["mode"], sel_fn, q.get("keep"), None)
                cnt["computed_partial_queries"] = cnt.get("computed_partial_queries", 0) + 1
                try:
                    with common.quiet():
                        got = hrun.make_context(spec2, d, cfg).get_array("0", tgt2, progress_bar=False, **kw)
                except Exception as e:  # noqa: BLE001
                    if "Timeout" not in type(e).__name__:
                        add("exception", f"partial request {kw} for {tgt2} (computed from stored ev) failed: {e!r}", q, e)
                    continue
                if not same_rows(got, want, names):
                    add("rows", f"computed {tgt2}, query {kw}: got {got.tolist()} want {want[names].tolist() if names else []}", q)
                cnt["listing_checks"] = cnt.get("listing_checks", 0) + 1
                after = listing(d)
                if after != before:
                    add("saved", f"partial request for {tgt2} changed the storage: {sorted(set(after) ^ set(before))[:5]}", q)
                    before = after
    finally:
        hrun.rm(d)
    return viol, cnt, hashes


def units(tier, seed):
    q = tier == "quick"
    n = 32 if q else 256
    per = 2 if q else 6
    return [{"name": f"layouts-{k}", "seed": seed, "lo": k * per, "hi": (k + 1) * per, "quick": q} for k in range(n)]


def run_unit(u):
    cl.install(strax)
    res = {"evaluations": 0, "hashes": [], "counters": {}, "samples": [], "violations": [], "inconclusive": []}
    for idx in range(u["lo"], u["hi"]):
        lay = gen_layout(u["seed"], idx)
        try:
            viol, cnt, hashes = run_layout(lay, u["quick"])
        except Exception as e:  # noqa: BLE001
            import traceback

            res["inconclusive"].append(f"layout {idx}: setup failed: " + "".join(traceback.format_exception(type(e), e, e.__traceback__))[-800:])
            continue
        res["evaluations"] += cnt.get("queries", 0)
        res["hashes"].extend(hashes)
        for k, v in cnt.items():
            res["counters"][k] = res["counters"].get(k, 0) + v
        res["violations"].extend(viol[:3])
        if not res["samples"]:
            res["samples"].append({"layout": lay, "example_query": {"time_range": [lay["t0"], lay["t1"]], "mode": "touching"}})
    return res


def replay(case):
    cl.install(strax)
    lay = case["layout"]
    viol, cnt, hashes = run_layout(lay, False)
    q = case.get("query") or {}
    keep = [v for v in viol if v["case"]["query"] == q] or viol
    return keep


def _exercise():
    cl.install(strax)
    for i in range(6):
        run_layout(gen_layout(4242, i), True)


def warm():
    hrun.warm_numba()
    _exercise()


def prefork():
    _exercise()
