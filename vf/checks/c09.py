"""C09 Overlap-window plugins give chunking-independent results at chunk boundaries.

Window-local harness plugins (one row per input row; one row per gap-separated group;
a two-output variant) run through the real OverlapWindowPlugin machinery under every
chunking of small disjoint inputs and random chunkings of larger ones. Oracle:
concatenated output == one computation over the whole run; chunks contiguous, tiling
the run, rows inside their chunk; for the multi-output variant every emission carries
identical chunk boundaries for all outputs and successive emissions are adjacent.
"""
import itertools

from vf import common

common.setup_env()
strax = common.import_strax()
from vf.checks.meta import META  # noqa: E402
from vf.harness import gen, oracle, run as hrun, plugins as hp  # noqa: E402
from vf.mon import chunklaws as cl  # noqa: E402

PROPERTY = "C09"
LEVEL = "exploration"
TECHNIQUE = META["C09"]["technique"]
RULE = (
    "case = (disjoint sorted rows, chunking, window (wl, wr) or group gap, plugin variant {per-row, per-group, "
    "two-output}, target output, processor); all cut subsets of all row sets of <= 3 rows on a 7-point grid are "
    "enumerated for windows {(0,0),(1,1),(3,3),(4,1),(0,3),(2,0),(20,20)} (distinct by construction); random "
    "cases up to 12 rows, incl. rows longer than the window, many chunks shorter than the window, empty and "
    "zero-duration chunks (distinct by hash); non-trivial = >= 1 input row and >= 2 input chunks"
)
ASSUMPTIONS = [
    "inputs are disjoint and sorted (the plugin's documented precondition); computations are local within the "
    "declared window (per-group variant: window >= longest group + gap)",
]
REQUIRED = {"runs_completed": 300, "emissions_checked": 300, "multi_output_emissions": 50, "chunks_checked": 500}
UNIT_TIMEOUT = 1200
WINDOWS = ((0, 0), (1, 1), (3, 3), (4, 1), (0, 3), (2, 0), (20, 20))


def build_spec(case):
    src = {"name": "ev", "kind": "ev", "rows": case["rows"], "cuts": case["cuts"]}
    v = case["variant"]
    if v == "window":
        p = {"name": "win", "type": "window", "deps": ["ev"], "window": case["window"]}
    elif v == "group":
        p = {"name": "win", "type": "group", "deps": ["ev"], "gap": case["gap"], "window": case["gwindow"]}
    else:
        p = {"name": "win", "type": "mwindow", "deps": ["ev"], "window": case["window"]}
    p["save_when"] = "NEVER" if v != "mwindow" else {"wina": "NEVER", "winb": "NEVER"}
    return {"sources": [src], "plugins": [p]}


def run_case(case):
    viol, cnt = [], {}

    def add(kind, what, exc=None, **extra):
        sig = {"kind": kind, "variant": case["variant"]}
        sig.update(extra)
        if exc is not None:
            sig.update(common.exc_sig(exc))
        viol.append({"sig": sig, "what": f"{kind}: {what}"[:700], "case": case})

    spec = build_spec(case)
    out = oracle.whole_run(spec)
    cfg = {"processor": case["processor"], "allow_lazy": case.get("lazy", True), "max_messages": 100, "timeout": 60}
    targets = ["win"] if case["variant"] != "mwindow" else ["wina", "winb"]
    t0, t1 = case["cuts"][0], case["cuts"][-1]
    for tgt in targets:
        hp.reset_events()
        st = hrun.make_context(spec, None, cfg)
        try:
            chunks = hrun.get_chunks(st, "0", tgt, cfg)
        except Exception as e:  # noqa: BLE001
            if "Timeout" in type(e).__name__:
                return viol, cnt, False, [f"timeout: {e}"]
            add("exception", f"get_iter({tgt}) failed: {e!r}", e)
            continue
        cnt["runs_completed"] = cnt.get("runs_completed", 0) + 1
        cnt["chunks_checked"] = cnt.get("chunks_checked", 0) + len(chunks)
        for e in oracle.check_chunks(chunks, out[tgt], t0, t1):
            add("rows" if "rows" in e else "tiling", f"target {tgt}: {e}")
        prev_end = None
        for ev in hp.events():
            if "emit" not in ev:
                continue
            cnt["emissions_checked"] = cnt.get("emissions_checked", 0) + 1
            spans = {k: tuple(v[:2]) for k, v in ev["emit"].items()}
            if len(spans) > 1:
                cnt["multi_output_emissions"] = cnt.get("multi_output_emissions", 0) + 1
            if len(set(spans.values())) != 1:
                add("misaligned-outputs", f"outputs emitted with different chunk boundaries: {spans}")
            s, e2 = list(spans.values())[0]
            if prev_end is not None and s != prev_end:
                add("emission-gap", f"emission starts at {s}, previous ended at {prev_end}")
            prev_end = e2
    nontrivial = len(case["rows"]) >= 1 and len(case["cuts"]) >= 3
    return viol, cnt, nontrivial, []


def enum_cases(G, shard, nshards):
    from vf.harness.intervals import all_intervals, sorted_lists

    ivs = all_intervals(G)
    k = 0
    for n in range(0, 4):
        for rows in sorted_lists(n, ivs, disjoint=True):
            rws = [(s, e, i + 1) for i, (s, e) in enumerate(rows)]
            legal = [c for c in range(1, G) if not any(s < c < e for s, e in rows)]
            for r in range(0, len(legal) + 1):
                for cs in itertools.combinations(legal, r):
                    k += 1
                    if k % nshards != shard:
                        continue
                    cuts = [0, *cs, G]
                    w = WINDOWS[k % len(WINDOWS)]
                    variant = ("window", "mwindow", "group")[k % 3]
                    case = {"rows": rws, "cuts": cuts, "variant": variant, "window": list(w),
                            "processor": ("single_thread", "threaded_mailbox")[(k // 3) % 2], "lazy": bool(k % 2)}
                    if variant == "group":
                        gap = (1, 2, 3)[k % 3]
                        case["gap"] = gap
                        case["gwindow"] = G + gap + 1
                    yield case


def gen_random(seed, idx):
    rng = gen.rng_for(seed, "c09", idx)
    t0 = rng.choice([0, 5])
    rows, end = gen.gen_disjoint_rows(rng, rng.randint(1, 12), t0, 1)
    t1 = end + rng.choice([0, 3])
    cuts = gen.gen_cuts(rng, rows, t0, t1, 1, max_inner=8, allow_trailing_zero=rng.random() < 0.2)
    variant = rng.choice(["window", "window", "mwindow", "group"])
    case = {"rows": rows, "cuts": cuts, "variant": variant, "window": list(rng.choice(WINDOWS + ((10, 3), (0, 7), (5, 5)))),
            "processor": rng.choice(["single_thread", "threaded_mailbox"]), "lazy": rng.random() < 0.5}
    if variant == "group":
        gap = rng.choice([1, 2, 4])
        case["gap"] = gap
        spec0 = {"sources": [{"name": "ev", "kind": "ev", "rows": rows, "cuts": cuts}],
                 "plugins": [{"name": "win", "type": "group", "deps": ["ev"], "gap": gap}]}
        o = oracle.whole_run(spec0)["win"]
        span = int((o["endtime"] - o["time"]).max()) if len(o) else 0
        case["gwindow"] = span + gap + 1
    return case


def units(tier, seed):
    q = tier == "quick"
    nsh = 8 if q else 16
    us = [{"name": f"enum-{s}", "fam": "enum", "G": 6 if q else 7, "shard": s, "nshards": nsh} for s in range(nsh)]
    per = 250 if q else 2000
    for k in range(8 if q else 32):
        us.append({"name": f"rand-{k}", "fam": "rand", "seed": seed, "lo": k * per, "hi": (k + 1) * per})
    return us


def run_unit(u):
    cl.install(strax)
    res = {"evaluations": 0, "hashes": [], "distinct": 0, "counters": {}, "samples": [], "violations": [], "inconclusive": []}

    def one(case, by_hash):
        viol, cnt, nt, inc = run_case(case)
        res["evaluations"] += 1
        if nt:
            if by_hash:
                res["hashes"].append(common.chash(case))
            else:
                res["distinct"] += 1
        for k, v in cnt.items():
            res["counters"][k] = res["counters"].get(k, 0) + v
        if len(res["violations"]) < 20:
            res["violations"].extend(viol[:2])
        res["inconclusive"].extend(inc)
        if len(res["samples"]) < 1 and nt:
            res["samples"].append(case)

    if u["fam"] == "enum":
        for case in enum_cases(u["G"], u["shard"], u["nshards"]):
            one(case, False)
    else:
        for idx in range(u["lo"], u["hi"]):
            one(gen_random(u["seed"], idx), True)
    log, _ = cl.snapshot()
    for entry in log[:3]:
        res["violations"].append({"sig": {"kind": "law", "op": entry["op"]}, "what": f"{entry['what']} :: {entry['detail']}", "case": {}})
    return res


def replay(case):
    cl.install(strax)
    viol, cnt, nt, inc = run_case(case)
    for i in inc:
        print("INCONCLUSIVE:", i)
    return viol


def _exercise():
    cl.install(strax)
    for i in range(30):
        run_case(gen_random(4242, i))


def warm():
    hrun.warm_numba()
    _exercise()


def prefork():
    _exercise()
