"""C06 Failures reach the caller and never hang the pipeline.

Fault enumeration over (stage, chunk index): an exception is injected into a source, a
mid-graph plugin, a multi-output plugin, a loader, the saver of the target, the saver
of a side output, or the consumer abandons the iterator after k chunks. The whole real
stack (Context.get_iter -> ThreadedMailboxProcessor -> mailboxes -> savers) runs under
the cooperative scheduler, each position under several random / PCT schedules, eager
and lazy, with and without a worker pool; the single-thread processor and a real-thread
stress pass cover the same positions. Oracle: the caller receives the injected
exception itself; every pipeline thread has finished; no deadlock; the virtual clock
stayed at 0 (nobody had to time out). Without failures every schedule must finish.
"""
import os
import sys
import threading as _rt

import numpy as np

from vf import common

common.setup_env()
strax = common.import_strax()
from vf.checks.meta import META  # noqa: E402
from vf.harness import oracle, run as hrun, plugins as hp  # noqa: E402
from vf.sched import coop, shims  # noqa: E402

PROPERTY = "C06"
LEVEL = "fault_enumeration"
TECHNIQUE = META["C06"]["technique"]
RULE = (
    "fault = (graph, stage in {source, mid plugin, multi-output plugin, loader, saver of target, saver of side "
    "output, chunk write on a pool worker thread, consumer close, none}, chunk index 0..n-1, lazy/eager, pool/no pool, processor); every position is "
    "enumerated and executed under several cooperative schedules (random + PCT), once with the single-thread "
    "processor and a subset with real threads; distinct = (fault position, interleaving signature); "
    "non-trivial = the fault was reached (or the run had >= 2 chunks for fault-free runs)"
)
ASSUMPTIONS = [
    "the injected exception is raised inside the real compute / _read_chunk / _save_chunk call of the stage",
    "hangs are decided in virtual time under the cooperative scheduler; real-thread timeouts are inconclusive",
    "any exception out of generator.close() is accepted (OutsideException is by design)",
]
REQUIRED = {"scheduled_runs": 300, "faults_delivered": 200, "closes_checked": 30, "fault_free_runs": 30,
            "single_thread_runs": 50, "scheduling_points": 20000, "real_thread_runs": 20,
            "process_pool_faults_delivered": 20}
UNIT_TIMEOUT = 1500

ROWS_EV = [(0, 2, 1), (3, 5, 2), (6, 8, 3), (10, 12, 4), (13, 14, 5), (16, 19, 6)]
ROWS_TH = [(0, 1, 101), (3, 4, 102), (6, 7, 103), (10, 11, 104), (17, 18, 105)]
CUTS = [0, 3, 6, 10, 20]


class Injected(Exception):
    pass


def graphs():
    g = {}
    g["chain"] = {"sources": [{"name": "ev", "kind": "ev", "rows": ROWS_EV, "cuts": CUTS}],
                  "plugins": [{"name": "r1", "type": "row", "deps": ["ev"], "save_when": "ALWAYS", "rechunk_on_save": False},
                              {"name": "top", "type": "row", "deps": ["r1"], "field": "v1", "save_when": "ALWAYS", "rechunk_on_save": False}],
                  "target": "top", "side": "r1", "mid": "r1"}
    g["chain_rechunk"] = {"sources": [{"name": "ev", "kind": "ev", "rows": ROWS_EV, "cuts": CUTS}],
                          "plugins": [{"name": "r1", "type": "row", "deps": ["ev"], "save_when": "ALWAYS", "rechunk_on_save": True},
                                      {"name": "top", "type": "row", "deps": ["r1"], "field": "v1", "save_when": "ALWAYS", "rechunk_on_save": True}],
                          "target": "top", "side": "r1", "mid": "r1", "only": ["saver_target", "saver_side", "none", "close"], "max_at": 0}
    nlong = 40
    g["long"] = {"sources": [{"name": "ev", "kind": "ev", "rows": [(10 * i, 10 * i + 3, i + 1) for i in range(nlong)],
                              "cuts": [10 * i for i in range(nlong + 1)]}],
                 "plugins": [{"name": "r1", "type": "row", "deps": ["ev"], "save_when": "ALWAYS", "rechunk_on_save": False},
                             {"name": "top", "type": "row", "deps": ["r1"], "field": "v1", "save_when": "ALWAYS", "rechunk_on_save": False}],
                 "target": "top", "side": "r1", "mid": "r1", "only": ["saver_target", "saver_side", "close", "mid", "none"],
                 "max_at": 2, "min_at": 1, "max_messages": 2, "src_bound": 4 * (2 + 2) + 2 * 3 + 2}
    g["multi"] = {"sources": [{"name": "ev", "kind": "ev", "rows": ROWS_EV, "cuts": CUTS}],
                  "plugins": [{"name": "m", "type": "multi", "deps": ["ev"], "save_when": {"ma": "ALWAYS", "mb": "ALWAYS"},
                               "rechunk_on_save": {"ma": False, "mb": False}},
                              {"name": "top", "type": "row", "deps": ["ma"], "field": "v1", "save_when": "ALWAYS", "rechunk_on_save": False}],
                  "target": "top", "side": "mb", "mid": "m"}
    # a multi-output plugin that declares its own buffer size (12 chunks of lag behind an exhaust plugin, context
    # default 4): both of its outputs must get that capacity, otherwise the fault-free run never terminates
    ncap = 12
    g["multi_cap"] = {"sources": [{"name": "ev", "kind": "ev", "rows": [(10 * i, 10 * i + 3, i + 1) for i in range(ncap)],
                                   "cuts": [10 * i for i in range(ncap + 1)], "save_when": "NEVER"}],
                      "plugins": [{"name": "m", "type": "multi", "deps": ["ev"], "field_a": "v1", "max_messages": 40,
                                   "save_when": {"ma": "NEVER", "mb": "NEVER"}},
                                  {"name": "xx", "type": "exhaust", "deps": ["ma"], "field": "v2", "save_when": "NEVER"},
                                  {"name": "top", "type": "gather", "deps": ["ma", "xx", "mb"], "field": "v0", "save_when": "NEVER"}],
                      "target": "top", "side": "mb", "mid": "m", "only": ["none"], "max_at": 0, "max_messages": 4}
    # the target hangs on the SECOND output of the multi-output plugin
    g["multi_b"] = {"sources": [{"name": "ev", "kind": "ev", "rows": ROWS_EV, "cuts": CUTS}],
                    "plugins": [{"name": "m", "type": "multi", "deps": ["ev"], "save_when": {"ma": "ALWAYS", "mb": "ALWAYS"},
                                 "rechunk_on_save": {"ma": False, "mb": False}},
                                {"name": "top", "type": "row", "deps": ["mb"], "field": "v1", "save_when": "ALWAYS", "rechunk_on_save": False}],
                    "target": "top", "side": "ma", "mid": "m"}
    g["loop"] = {"sources": [{"name": "ev", "kind": "ev", "rows": ROWS_EV, "cuts": CUTS},
                             {"name": "th", "kind": "th", "rows": ROWS_TH, "cuts": [0, 6, 20]}],
                 "plugins": [{"name": "lp", "type": "loop", "deps": ["ev", "th"], "save_when": "ALWAYS", "rechunk_on_save": False},
                             {"name": "top", "type": "row", "deps": ["lp"], "field": "v1", "save_when": "TARGET", "rechunk_on_save": False}],
                 "target": "top", "side": "lp", "mid": "lp"}
    return g


def positions(gname, g):
    n = min(len(CUTS) - 1, len(g["sources"][0]["cuts"]) - 1)
    pos = [{"stage": "none"}]
    for i in range(n):
        pos.append({"stage": "source", "who": "ev", "at": i})
        pos.append({"stage": "mid", "who": g["mid"], "at": i})
        pos.append({"stage": "top", "who": "top", "at": i})
        pos.append({"stage": "saver_target", "who": g["target"], "at": i})
        pos.append({"stage": "saver_side", "who": g["side"], "at": i})
        pos.append({"stage": "close", "at": i})
        pos.append({"stage": "pool_write", "who": g["side"], "at": i, "needs_pool": True})
        pos.append({"stage": "pool_write", "who": g["target"], "at": i, "needs_pool": True})
        if gname == "chain":
            pos.append({"stage": "loader", "who": "r1", "at": i})
    if gname == "loop":
        pos.append({"stage": "source", "who": "th", "at": 1})
    if "only" in g:
        pos = [p for p in pos if p["stage"] in g["only"] and (p["stage"] == "none" or g.get("min_at", 0) <= p["at"] <= g["max_at"])]
    return pos


class FaultInjector:
    """Patches the real _read_chunk / _save_chunk to raise the prepared exception at one position."""

    def __init__(self, pos, exc):
        self.pos = pos
        self.exc = exc
        self.reached = False

    def __enter__(self):
        self.orig_read = strax.FileSytemBackend._read_chunk
        self.orig_save = strax.FileSaver._save_chunk
        pos, me = self.pos, self

        def read_chunk(backend, dirname, chunk_info, dtype, compressor):
            if pos["stage"] == "loader" and f"-{pos['who']}-" in os.path.basename(dirname) and chunk_info["chunk_i"] == pos["at"]:
                me.reached = True
                raise me.exc
            return me.orig_read(backend, dirname, chunk_info, dtype, compressor)

        def save_chunk(saver, data, chunk_info, executor=None):
            if pos["stage"] in ("saver_target", "saver_side") and saver.prefix.startswith(pos["who"] + "-") \
                    and chunk_info["chunk_i"] == pos["at"]:
                me.reached = True
                raise me.exc
            return me.orig_save(saver, data, chunk_info, executor=executor)

        self.orig_save_file = strax.save_file

        def save_file(f, data, compressor="zstd"):
            # the chunk write itself (runs on a pool worker thread when saving through an executor)
            if pos["stage"] == "pool_write" and isinstance(f, str) and os.path.basename(f).startswith(pos["who"] + "-") \
                    and f.endswith("-%06d" % pos["at"]):
                me.reached = True
                raise me.exc
            return me.orig_save_file(f, data, compressor)

        strax.FileSytemBackend._read_chunk = read_chunk
        strax.FileSaver._save_chunk = save_chunk
        strax.save_file = save_file
        return self

    def __exit__(self, *a):
        strax.FileSytemBackend._read_chunk = self.orig_read
        strax.FileSaver._save_chunk = self.orig_save
        strax.save_file = self.orig_save_file


def run_one(gname, g, pos, cfg, chooser=None, real=False):
    """Execute one fault position. Returns outcome dict."""
    spec = {"sources": g["sources"], "plugins": [dict(p) for p in g["plugins"]]}
    if cfg.get("pool"):
        for p in spec["plugins"]:
            if p["type"] in ("row", "multi"):
                # computed in the worker pool: a failing computation reaches the pipeline as a failed future
                p["parallel"] = "thread"
    out = {"errors": []}
    d = hrun.mktemp("c06-")
    exc_obj = Injected(f"{pos.get('stage')}:{pos.get('who')}@{pos.get('at')}")
    extra = {}
    if pos["stage"] in ("source", "mid", "top"):
        extra["fail_" + pos["who"]] = pos["at"]
    scfg = {"processor": cfg["processor"], "allow_lazy": cfg["lazy"], "max_messages": g.get("max_messages", 6),
            "timeout": 30 if not real else 60}
    try:
        if pos["stage"] == "loader":
            st0 = hrun.make_context(spec, d, {"processor": "single_thread"})
            with common.quiet():
                st0.make("0", pos["who"], progress_bar=False)
            import shutil

            for name in os.listdir(d):
                if f"-{pos['who']}-" not in name:
                    shutil.rmtree(os.path.join(d, name))
        sched = None
        before_threads = hrun.threads_snapshot() if real else None

        def body():
            hp.reset_events()
            st = hrun.make_context(spec, d, scfg, extra_config=extra)
            got = []
            caught = None
            closed_exc = None
            try:
                with common.quiet():
                    it = st.get_iter("0", g["target"], progress_bar=False, max_workers=2 if cfg.get("pool") else None)
                    for i, c in enumerate(it):
                        got.append(c)
                        if pos["stage"] == "close" and i == pos["at"]:
                            try:
                                it.close()
                            except BaseException as e:  # noqa: BLE001
                                if isinstance(e, (coop.Deadlock, coop.Abort)):
                                    raise
                                closed_exc = e
                            break
            except (coop.Deadlock, coop.Abort):
                raise
            except BaseException as e:  # noqa: BLE001
                caught = e
            return got, caught, closed_exc

        with FaultInjector(pos, exc_obj) as inj:
            if cfg["processor"] == "threaded_mailbox" and not real:
                sched = coop.Sched(chooser=chooser, max_steps=100000)
                with shims.coop_pipeline(sched):
                    sched.register_main()
                    try:
                        got, caught, closed_exc = body()
                        out["deadlock"] = None
                    except coop.Deadlock as e:
                        got, caught, closed_exc = [], None, None
                        out["deadlock"] = str(e)
                out["clock"] = sched.clock
                out["timeouts_fired"] = sched.timeouts_fired
                out["steps"] = sched.steps
                out["sig"] = sched.signature()
                out["choices"] = list(sched.choices)
                out["unfinished"] = sched.all_done() if not sched.dead else []
            else:
                if real:
                    old = sys.getswitchinterval()
                    sys.setswitchinterval(1e-6)
                try:
                    got, caught, closed_exc = body()
                finally:
                    if real:
                        sys.setswitchinterval(old)
                out["deadlock"] = None
                out["clock"] = 0
                out["timeouts_fired"] = 0
                out["steps"] = 0
                out["sig"] = "real" if real else "single"
                out["unfinished"] = hrun.leaked_threads(before_threads) if real else []
            reached = inj.reached or any(
                e.get("p") == pos.get("who") and (e.get("call") == pos.get("at") or e.get("chunk_i") == pos.get("at"))
                for e in hp.events()) if pos["stage"] in ("source", "mid", "top") else inj.reached
        out["source_calls"] = sum(1 for e in hp.events() if e.get("src"))
        out["storage_errors"] = []
        if pos["stage"] == "none" and caught is None and not out.get("deadlock"):
            # fault-free run: everything the run stored must load and be right (a saver that closed before
            # its queued writes finished leaves listed chunks without files)
            want_all = oracle.whole_run(spec)
            for dt in want_all:
                try:
                    if hrun.is_stored(spec, d, dt):
                        got_dt = hrun.load_stored(spec, d, dt)
                        if not oracle.rows_equal(got_dt, want_all[dt]):
                            out["storage_errors"].append(f"stored {dt} differs from the whole-run result")
                except Exception as e:  # noqa: BLE001
                    out["storage_errors"].append(f"stored {dt} does not load: {e!r}")
        out["got"] = got
        out["caught"] = caught
        out["closed_exc"] = closed_exc
        out["reached"] = bool(reached) or pos["stage"] in ("close", "none")
        out["exc_obj"] = exc_obj
        out["spec"] = spec
    finally:
        hrun.rm(d)
    return out


def judge(g, pos, cfg, out):
    v = []
    st = pos["stage"]
    if out.get("deadlock"):
        return [("deadlock", f"deadlock: {out['deadlock']}")]
    if out.get("clock", 0) > 0 or out.get("timeouts_fired"):
        v.append(("virtual-timeout", f"progress needed a (virtual) timeout: clock {out['clock']}; caller saw {out['caught']!r}"))
    if out.get("unfinished"):
        v.append(("threads-left", f"threads still alive after the call returned: {out['unfinished'][:5]}"))
    c = out["caught"]
    for t in out.get("storage_errors", []):
        v.append(("storage", t))
    if "src_bound" in g and st != "none" and out["reached"]:
        lim = pos.get("at", 0) + g["src_bound"]
        if out.get("source_calls", 0) > lim:
            v.append(("source-keeps-running", f"after the {st} at chunk {pos.get('at')} the source was advanced "
                                              f"{out['source_calls']} times (bound {lim}): it is not stopped"))
    if st == "none":
        if c is not None:
            v.append(("exception", f"fault-free run raised {c!r}"))
        else:
            want = oracle.whole_run(out["spec"])[g["target"]]
            got = np.concatenate([x.data for x in out["got"]]) if out["got"] else want[:0]
            if not oracle.rows_equal(got, want):
                v.append(("rows", "fault-free run returned wrong rows"))
    elif st == "close":
        if c is not None and not isinstance(c, strax.OutsideException):
            v.append(("close", f"abandoning the iterator raised {c!r} into the consumer loop"))
    elif out["reached"]:
        if c is None:
            v.append(("swallowed", f"fault at {st}:{pos.get('who')}@{pos.get('at')} was reached but the caller got a normal "
                                   f"return with {len(out['got'])} chunks"))
        else:
            is_it = c is out["exc_obj"] or (isinstance(c, hp.InjectedFailure) and c.args and c.args[0] == f"{pos['who']}@{pos['at']}")
            if not is_it:
                kind = "timeout-instead" if "Timeout" in type(c).__name__ else "wrong-exception"
                if "saver already closed" in str(c) and c.__context__ is out["exc_obj"]:
                    kind = "masked-by-saver-already-closed"
                v.append((kind, f"fault at {st}:{pos.get('who')}@{pos.get('at')}: caller received {type(c).__name__}: {str(c)[:200]} "
                                f"(context: {type(c.__context__).__name__ if c.__context__ else None})"))
    return v


def all_jobs(tier):
    q = tier == "quick"
    jobs = []
    G = graphs()
    for gname, g in G.items():
        for pos in positions(gname, g):
            for lazy in (True, False):
                for pool in (False, True):
                    if pool and lazy:
                        continue  # lazy mode is disabled with worker pools
                    if pos.get("needs_pool") and not pool:
                        continue
                    jobs.append({"g": gname, "pos": pos, "cfg": {"processor": "threaded_mailbox", "lazy": lazy, "pool": pool}})
            if not pos.get("needs_pool"):
                jobs.append({"g": gname, "pos": pos, "cfg": {"processor": "single_thread", "lazy": True, "pool": False}})
    return jobs


# ---------------------------------------------------------------- failures inside pool worker PROCESSES
MP_ROWS = ((0, 500, 1), (800, 1200, 2), (3000, 3500, 3), (3600, 4000, 4), (6000, 6400, 5), (9000, 9300, 6))
MP_CUTS = (0, 2000, 5000, 10000)


def mp_jobs():
    jobs = []
    for inline in (False, True):
        for plugin in ("mprow", "mpmulti", "mptop"):
            for ci in range(len(MP_CUTS) - 1):
                jobs.append({"inline": inline, "kind": "plugin", "plugin": plugin, "chunk": ci})
    for dtype in ("mpsrc", "mprow", "mpma", "mptop"):
        for ci in (0, 2):
            for op in ("open:w", "os.rename"):
                jobs.append({"inline": True, "kind": "saver", "dtype": dtype, "chunk": ci, "op": op})
    return jobs


def run_mp_job(job):
    """A plugin computation or an inlined saver fails in a worker process of the pool: the caller must get that
    exception (it crosses the process boundary pickled), all pipeline threads must end, no timeout."""
    import multiprocessing as _mp

    from vf.harness import mp_plugins as mp

    if _mp.get_start_method(allow_none=True) != "forkserver":
        _mp.set_start_method("forkserver", force=True)
        _mp.set_forkserver_preload(["strax", "vf.harness.mp_plugins"])
    d = hrun.mktemp("c06mp-")
    marker = d.rstrip("/") + ".fired"
    cfg = dict(mp_rows=MP_ROWS, mp_cuts=MP_CUTS)
    if job["kind"] == "plugin":
        cfg["mp_fail"] = {"plugin": job["plugin"], "start": MP_CUTS[job["chunk"]]}
        want_msg = f"injected failure in {job['plugin']} at chunk starting at {MP_CUTS[job['chunk']]}"
    else:
        cfg["mp_fault"] = {"dtype": job["dtype"], "chunk": job["chunk"], "op": job["op"], "mode": "raise", "marker": marker}
        want_msg = "injected I/O error in a pool worker process"
    v = []
    before = hrun.threads_snapshot()
    try:
        st = strax.Context(storage=[strax.DataDirectory(d)], register=mp.ALL_INLINE if job["inline"] else mp.ALL, config=cfg,
                           allow_multiprocess=True, allow_lazy=False, max_messages=10, timeout=60, processors=["threaded_mailbox"])
        exc = None
        try:
            with common.quiet():
                st.make("0", "mptop", progress_bar=False, max_workers=2)
        except BaseException as e:  # noqa: BLE001
            exc = e
        reached = job["kind"] == "plugin" or os.path.exists(marker)
        if not reached:
            return v, False
        if exc is None:
            v.append(("swallowed", f"{job}: the failure happened in a worker process but make() returned normally"))
        elif want_msg not in str(exc):
            kind = "timeout-instead" if "Timeout" in type(exc).__name__ else "wrong-exception"
            v.append((kind, f"{job}: caller received {type(exc).__name__}: {str(exc)[:200]}"))
        left = hrun.leaked_threads(before)
        if left:
            v.append(("threads-left", f"{job}: threads still alive after the call returned: {left[:5]}"))
    finally:
        hrun.rm(d)
        if os.path.exists(marker):
            os.remove(marker)
    return v, True


def units(tier, seed):
    n = 32
    us = [{"name": f"faults-{k}", "fam": "sched", "shard": k, "nshards": n, "seed": seed, "tier": tier} for k in range(n)]
    us.append({"name": "realthreads", "fam": "real", "seed": seed, "tier": tier})
    us += [{"name": f"procpool-{k}", "fam": "mp", "shard": k, "nshards": 4, "seed": seed, "tier": tier} for k in range(4)]
    return us


def run_unit(u):
    res = {"evaluations": 0, "hashes": [], "counters": {}, "samples": [], "violations": [], "inconclusive": []}
    cnt = res["counters"]
    G = graphs()
    jobs = all_jobs(u["tier"])
    q = u["tier"] == "quick"

    def record(job, out, verdicts):
        pos, cfg = job["pos"], job["cfg"]
        res["evaluations"] += 1
        if out["reached"]:
            res["hashes"].append(common.chash([job, out.get("sig")]))
        st = pos["stage"]
        if st == "none" and not verdicts:
            cnt["fault_free_runs"] = cnt.get("fault_free_runs", 0) + 1
        elif st == "close":
            cnt["closes_checked"] = cnt.get("closes_checked", 0) + 1
        elif out["reached"] and not verdicts:
            cnt["faults_delivered"] = cnt.get("faults_delivered", 0) + 1
        cnt["scheduling_points"] = cnt.get("scheduling_points", 0) + out.get("steps", 0)
        for kind, text in verdicts:
            if len(res["violations"]) < 15:
                res["violations"].append({"sig": {"kind": kind, "stage": st, "processor": cfg["processor"], "lazy": cfg["lazy"],
                                                  "pool": cfg["pool"], "graph": job["g"]},
                                          "what": f"{kind}: {text}"[:600],
                                          "case": {"job": job, "choices": out.get("choices", [])[:5000]}})

    if u["fam"] == "mp":
        for ji, job in enumerate(mp_jobs()):
            if ji % u["nshards"] != u["shard"]:
                continue
            if q and job["kind"] == "plugin" and job["chunk"] == 1:
                continue
            verdicts, reached = run_mp_job(job)
            res["evaluations"] += 1
            if reached:
                res["hashes"].append(common.chash(job))
                if not verdicts:
                    cnt["process_pool_faults_delivered"] = cnt.get("process_pool_faults_delivered", 0) + 1
            for kind, text in verdicts:
                res["violations"].append({"sig": {"kind": kind, "stage": "pool_process_" + job["kind"], "processor": "threaded_mailbox",
                                                  "lazy": False, "pool": "process", "graph": "mp_inline" if job["inline"] else "mp"},
                                          "what": f"{kind}: {text}"[:600], "case": {"mp_job": job}})
        if not res["samples"]:
            res["samples"].append({"process_pool_jobs": len(mp_jobs())})
        return res
    if u["fam"] == "real":
        for ji, job in enumerate(jobs):
            if job["cfg"]["processor"] != "threaded_mailbox" or ji % (5 if q else 1):
                continue
            out = run_one(job["g"], G[job["g"]], job["pos"], job["cfg"], real=True)
            vs = judge(G[job["g"]], job["pos"], job["cfg"], out)
            inc = [x for x in vs if x[0] in ("timeout-instead",)]
            vs = [x for x in vs if x[0] not in ("timeout-instead",)]
            res["inconclusive"].extend(f"real-thread run: {t}" for _, t in inc)
            cnt["real_thread_runs"] = cnt.get("real_thread_runs", 0) + 1
            record(job, out, vs)
        return res

    for ji, job in enumerate(jobs):
        if ji % u["nshards"] != u["shard"]:
            continue
        g = G[job["g"]]
        if job["cfg"]["processor"] == "single_thread":
            out = run_one(job["g"], g, job["pos"], job["cfg"])
            cnt["single_thread_runs"] = cnt.get("single_thread_runs", 0) + 1
            record(job, out, judge(g, job["pos"], job["cfg"], out))
            continue
        nrand, npct = (3, 2) if q else (40, 20)
        choosers = [coop.RandomChooser(u["seed"] * 100003 + ji * 97 + k) for k in range(nrand)] + \
                   [coop.PCTChooser(u["seed"] * 7919 + ji * 13 + k, depth=3, horizon=300) for k in range(npct)] + \
                   [coop.PlanChooser({})]
        for ch in choosers:
            out = run_one(job["g"], g, job["pos"], job["cfg"], chooser=ch)
            cnt["scheduled_runs"] = cnt.get("scheduled_runs", 0) + 1
            record(job, out, judge(g, job["pos"], job["cfg"], out))
        if not res["samples"]:
            res["samples"].append({"job": job, "steps": out.get("steps"), "interleaving": out.get("sig")})
    return res


def replay(case):
    if "mp_job" in case:
        verdicts, _ = run_mp_job(case["mp_job"])
        return [{"sig": {"kind": k}, "what": t, "case": case} for k, t in verdicts]
    job = case["job"]
    G = graphs()
    g = G[job["g"]]
    if job["cfg"]["processor"] == "single_thread":
        out = run_one(job["g"], g, job["pos"], job["cfg"])
    else:
        out = run_one(job["g"], g, job["pos"], job["cfg"], chooser=coop.ReplayChooser(case.get("choices", [])))
    return [{"sig": {"kind": k}, "what": t, "case": case} for k, t in judge(g, job["pos"], job["cfg"], out)]


def _exercise():
    G = graphs()
    for job in all_jobs("quick")[::17]:
        try:
            run_one(job["g"], G[job["g"]], job["pos"], job["cfg"], chooser=coop.RandomChooser(1))
        except Exception:  # noqa: BLE001
            pass


def warm():
    hrun.warm_numba()
    _exercise()


def prefork():
    _exercise()
