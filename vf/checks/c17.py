"""C17 Interval primitives agree with their set-theoretic definitions.

Oracle shape: every public primitive is called on a generated input satisfying the
documented preconditions and its result is compared with a direct quadratic
evaluation of the definition (written forwards from the definition, in plain
Python on lists of (start, end) tuples). Exhaustive small-scope sweeps + seeded
random larger arrays; the whole sweep is repeated under NUMBA_BOUNDSCHECK=1
(numba's bounds-checking build = the sanitizer for nopython code).
"""
import itertools
import random

import numpy as np

from vf import common

common.setup_env(boundscheck=bool(__import__("os").environ.get("NUMBA_BOUNDSCHECK")))
strax = common.import_strax()
from vf.harness.intervals import arr, all_intervals, sorted_lists, random_sorted  # noqa: E402

PROPERTY = "C17"
LEVEL = "exploration"
TECHNIQUE = (
    "runtime oracle: real strax primitives vs quadratic reference definitions on exhaustive "
    "small-scope + random inputs; numba bounds-checking sanitizer pass"
)
RULE = (
    "cases = (function, things, containers/intervals, end-time encoding, window) enumerated "
    "exhaustively over sorted interval multisets on a small integer grid (distinct by "
    "construction) plus seeded random arrays up to 200 rows (distinct by hash); a case is "
    "non-trivial when at least one of the two arrays is non-empty and the oracle compared a result"
)
ASSUMPTIONS = [
    "preconditions as documented: inputs sorted by time, rows of positive length, containers "
    "non-overlapping for containment, things and intervals non-overlapping for time-to-neighbour, "
    "things sorted by endtime too for the exact touching-window oracle (superset oracle otherwise)",
    "reference definitions in vf/checks/c17.py are the set-theoretic reading of the docstrings",
]
REQUIRED = {
    "fully_contained_in": 1000,
    "split_by_containment": 1000,
    "touching_windows": 1000,
    "split_touching_windows": 200,
    "overlap_indices": 1000,
    "diff": 200,
    "find_break": 200,
    "abs_time_to_prev_next": 500,
    "sort_by_time": 200,
    "rejections": 20,
}
UNIT_TIMEOUT = 1500


# ---------------------------------------------------------------- reference definitions
def ref_fully_contained(things, conts):
    return [
        next((j for j, (cs, ce) in enumerate(conts) if cs <= ts and te <= ce), -1)
        for ts, te in things
    ]


def ref_touching(things, conts, w):
    return [
        {i for i, (ts, te) in enumerate(things) if te > cs - w and ts < ce + w} for cs, ce in conts
    ]


def ref_overlap(a1, na, b1, nb):
    lo = max(a1, b1)
    hi = min(a1 + na, b1 + nb)
    if hi <= lo:
        return (0, 0), (0, 0)
    return (lo - a1, hi - a1), (lo - b1, hi - b1)


def ref_diff(rows):
    out = []
    for i in range(1, len(rows)):
        out.append(rows[i][0] - max(e for _, e in rows[:i]))
    return out


def ref_break(rows, safe_break, not_before):
    for i in range(1, len(rows)):
        latest = max([not_before] + [e for _, e in rows[:i]])
        if rows[i][0] >= latest + safe_break:
            return i
    return None


def ref_prev_next(things, ints):
    prev, nxt = [], []
    for ts, te in things:
        p = [ts - ie for (is_, ie) in ints if ie <= ts]
        n = [is_ - te for (is_, ie) in ints if is_ >= te]
        prev.append(min(p) if p else -1)
        nxt.append(min(n) if n else -1)
    return prev, nxt


# ---------------------------------------------------------------- bookkeeping
class Acc:
    def __init__(self):
        self.evaluations = 0
        self.distinct = 0
        self.hashes = set()
        self.counters = {}
        self.samples = []
        self.violations = []

    def count(self, name, n=1):
        self.counters[name] = self.counters.get(name, 0) + n

    def viol(self, fn, kind, case, detail, exc=None):
        if len(self.violations) < 30:
            sig = {"fn": fn, "kind": kind}
            if exc is not None:
                sig.update(common.exc_sig(exc))
            case = dict(case, fn=fn, boundscheck=bool(__import__("os").environ.get("NUMBA_BOUNDSCHECK")))
            self.violations.append({"sig": sig, "what": f"{fn}: {kind}: {detail}"[:500], "case": case})

    def result(self):
        return {
            "evaluations": self.evaluations,
            "distinct": self.distinct,
            "hashes": sorted(self.hashes),
            "counters": self.counters,
            "samples": self.samples[:3],
            "violations": self.violations,
        }


# ---------------------------------------------------------------- per-function checks
def check_containment(acc, things, conts, enc, sample=False):
    case = {"things": things, "containers": conts, "enc": enc}
    t = arr(things, enc)
    c = arr(conts, enc)
    acc.evaluations += 1
    try:
        got = strax.fully_contained_in(t, c)
        ref = ref_fully_contained(things, conts)
        acc.count("fully_contained_in")
        if list(map(int, got)) != ref:
            acc.viol("fully_contained_in", "mismatch", case, f"got {list(got)} ref {ref}")
    except Exception as e:
        acc.viol("fully_contained_in", "exception", case, repr(e), e)
    try:
        sp = strax.split_by_containment(t, c)
        acc.count("split_by_containment")
        refsp = [[i for i, (ts, te) in enumerate(things) if cs <= ts and te <= ce] for cs, ce in conts]
        ok = len(sp) == len(conts)
        if ok:
            for s, r in zip(sp, refsp):
                if len(s) != len(r) or not np.array_equal(np.asarray(s), t[r]):
                    ok = False
        if not ok:
            acc.viol(
                "split_by_containment", "mismatch", case,
                f"got {[np.asarray(s).tolist() for s in sp]} ref index sets {refsp}",
            )
    except Exception as e:
        acc.viol("split_by_containment", "exception", case, repr(e), e)
    if sample and len(acc.samples) < 3:
        acc.samples.append(dict(case, fn="fully_contained_in/split_by_containment"))


def check_touching(acc, things, conts, w, enc_t, enc_c, end_sorted, sample=False):
    case = {"things": things, "containers": conts, "window": w, "enc": [enc_t, enc_c]}
    t = arr(things, enc_t)
    c = arr(conts, enc_c)
    acc.evaluations += 1
    try:
        got = strax.touching_windows(t, c, window=w)
        acc.count("touching_windows")
        ref = ref_touching(things, conts, w)
        if got.shape != (len(conts), 2):
            acc.viol("touching_windows", "mismatch", case, f"shape {got.shape}")
            return
        for j in range(len(conts)):
            lo, hi = int(got[j][0]), int(got[j][1])
            g = set(range(lo, hi))
            if end_sorted or not things:
                okj = g == ref[j]
            else:
                # documented weaker contract for things whose endtimes are not sorted
                # ("indices of the first and last things which are touching"): the slice
                # contains every touching thing and, if non-empty, starts at a touching thing
                okj = ref[j] <= g and (not g or lo in ref[j])
            if not okj:
                acc.viol(
                    "touching_windows", "mismatch", dict(case, end_sorted=end_sorted),
                    f"container {j}: got [{lo},{hi}) ref {sorted(ref[j])}",
                )
                break
    except Exception as e:
        acc.viol("touching_windows", "exception", case, repr(e), e)
    if sample and len(acc.samples) < 3:
        acc.samples.append(dict(case, fn="touching_windows"))


def check_split_touching(acc, things, conts, w, enc):
    case = {"things": things, "containers": conts, "window": w, "enc": enc}
    if not things or not conts:
        return  # numba cannot type an empty reflected list; outside what callers do
    t = arr(things, enc, extra=[("id", np.int32, list(range(len(things))))])
    c = arr(conts, enc)
    acc.evaluations += 1
    try:
        got = strax.split_touching_windows(t, c, window=w)
        acc.count("split_touching_windows")
        ref = ref_touching(things, conts, w)
        ok = len(got) == len(conts) and all(
            sorted(ref[j]) == [int(x) for x in got[j]["id"]] for j in range(len(conts))
        )
        if not ok:
            acc.viol(
                "split_touching_windows", "mismatch", case,
                f"got {[list(map(int, g['id'])) for g in got]} ref {[sorted(r) for r in ref]}",
            )
    except Exception as e:
        acc.viol("split_touching_windows", "exception", case, repr(e), e)


def check_overlap(acc, a1, na, b1, nb):
    acc.evaluations += 1
    case = {"a1": a1, "n_a": na, "b1": b1, "n_b": nb}
    try:
        got = strax.overlap_indices(a1, na, b1, nb)
        acc.count("overlap_indices")
        got = tuple(tuple(int(v) for v in p) for p in got)
        ref = ref_overlap(a1, na, b1, nb)
        if got != ref:
            acc.viol("overlap_indices", "mismatch", case, f"got {got} ref {ref}")
    except Exception as e:
        acc.viol("overlap_indices", "exception", case, repr(e), e)


def check_diff_break(acc, rows, enc, safe_breaks=(0, 1, 2, 3), not_befores=(0, 2, 5)):
    case = {"rows": rows, "enc": enc}
    a = arr(rows, enc, extra=[("id", np.int32, list(range(len(rows))))])
    acc.evaluations += 1
    try:
        got = [int(v) for v in strax.diff(a)]
        acc.count("diff")
        ref = ref_diff(rows)
        if got != ref:
            acc.viol("diff", "mismatch", case, f"got {got} ref {ref}")
    except Exception as e:
        acc.viol("diff", "exception", case, repr(e), e)
    if len(rows) < 2:
        # documented: one row -> NoBreakFound
        if len(rows) == 1:
            try:
                strax.from_break(a, safe_break=1)
                acc.viol("from_break", "no-rejection", case, "single row accepted")
            except strax.NoBreakFound:
                acc.count("find_break")
            except Exception as e:
                acc.viol("from_break", "exception", case, repr(e), e)
        return
    for sb in safe_breaks:
        for nb in not_befores:
            c2 = dict(case, safe_break=sb, not_before=nb)
            ref = ref_break(rows, sb, nb)
            for left in (True, False):
                acc.evaluations += 1
                try:
                    part, bt = strax.from_break(a, safe_break=sb, not_before=nb, left=left)
                    acc.count("find_break")
                    if ref is None:
                        acc.viol("from_break", "mismatch", c2, f"found break {bt} but none exists")
                    else:
                        ids = [int(x) for x in part["id"]]
                        want = list(range(ref)) if left else list(range(ref, len(rows)))
                        if ids != want or int(bt) != rows[ref][0]:
                            acc.viol(
                                "from_break", "mismatch", dict(c2, left=left),
                                f"got ids {ids} t={int(bt)} want {want} t={rows[ref][0]}",
                            )
                except strax.NoBreakFound:
                    acc.count("find_break")
                    if ref is not None:
                        acc.viol("from_break", "mismatch", c2, f"NoBreakFound but break at {ref}")
                except Exception as e:
                    acc.viol("from_break", "exception", c2, repr(e), e)


def check_prev_next(acc, things, ints, enc):
    case = {"things": things, "intervals": ints, "enc": enc}
    t = arr(things, enc)
    iv = arr(ints, enc)
    acc.evaluations += 1
    try:
        p, n = strax.abs_time_to_prev_next_interval(t, iv)
        acc.count("abs_time_to_prev_next")
        rp, rn = ref_prev_next(things, ints)
        if [int(v) for v in p] != rp or [int(v) for v in n] != rn:
            acc.viol(
                "abs_time_to_prev_next_interval", "mismatch", case,
                f"got {list(map(int, p))},{list(map(int, n))} ref {rp},{rn}",
            )
    except Exception as e:
        acc.viol("abs_time_to_prev_next_interval", "exception", case, repr(e), e)


SORT_DT_CH = None


def check_sort(acc, rows, with_channel, big=False):
    """rows: list of (time, channel, payload) in arbitrary order."""
    case = {"rows": rows, "with_channel": with_channel, "big": big}
    dt = list(strax.time_fields) + ([("channel", np.int16)] if with_channel else []) + [("p", np.int32)]
    x = np.zeros(len(rows), dtype=dt)
    for i, (t, ch, p) in enumerate(rows):
        x["time"][i] = t
        x["endtime"][i] = t + 1
        if with_channel:
            x["channel"][i] = ch
        x["p"][i] = p
    acc.evaluations += 1
    try:
        got = strax.sort_by_time(x.copy())
        acc.count("sort_by_time")
        if with_channel:
            order = sorted(range(len(rows)), key=lambda i: (rows[i][0], rows[i][1]))
        else:
            order = sorted(range(len(rows)), key=lambda i: rows[i][0])
        ref = x[order] if len(rows) else x
        if not np.array_equal(got, ref):
            acc.viol("sort_by_time", "mismatch", case, f"got {got.tolist()} ref {ref.tolist()}")
            return
        again = strax.sort_by_time(got.copy())
        if not np.array_equal(again, got):
            acc.viol("sort_by_time", "mismatch", case, "not idempotent")
    except Exception as e:
        acc.viol("sort_by_time", "exception", case, repr(e), e)


def check_rejections(acc):
    """Inputs violating sortedness must be rejected; unstable sorts must be refused."""
    uns = [(3, 4), (1, 2)]
    ok = [(0, 5)]
    for enc in ("endtime", "dt"):
        for fname in (
            "fully_contained_in", "split_by_containment", "touching_windows",
            "split_touching_windows", "abs_time_to_prev_next_interval",
        ):
            f = getattr(strax, fname)
            for which, args in (("things", (arr(uns, enc), arr(ok, enc))), ("containers", (arr(ok, enc), arr(uns, enc)))):
                acc.evaluations += 1
                case = {"fn": fname, "unsorted": which, "enc": enc}
                try:
                    f(*args)
                    acc.viol(fname, "no-rejection", case, f"unsorted {which} accepted")
                except ValueError:
                    acc.count("rejections")
                except Exception as e:
                    acc.viol(fname, "exception", case, "wrong exception type " + repr(e), e)
    from strax.processing.general import _touching_windows, _sort_by_time_and_channel

    a = np.array([3, 1, 2], dtype=np.int64)
    for kind in ("quicksort", "heapsort", "stable", None):
        for fname, call in (
            ("stable_sort", lambda k: strax.stable_sort(a, kind=k)),
            ("stable_argsort", lambda k: strax.stable_argsort(a, kind=k)),
            ("_touching_windows", lambda k: _touching_windows(a, a + 1, a, a + 1, 0, k)),
        ):
            if kind is None and fname == "_touching_windows":
                continue
            acc.evaluations += 1
            case = {"fn": fname, "kind": kind}
            try:
                call(kind)
                acc.viol(fname, "no-rejection", case, f"kind={kind} accepted")
            except strax.sort_enforcement.SortingError:
                acc.count("rejections")
            except Exception as e:
                acc.viol(fname, "exception", case, "wrong exception type " + repr(e), e)
    # stability + determinism of the allowed sort
    keys = np.array([2, 1, 2, 1, 1, 2, 0], dtype=np.int64)
    for _ in range(5):
        acc.evaluations += 1
        idx = strax.stable_argsort(keys)
        acc.count("rejections")
        if list(map(int, idx)) != [6, 1, 3, 4, 0, 2, 5]:
            acc.viol("stable_argsort", "mismatch", {"keys": keys.tolist()}, f"got {idx.tolist()}")


# ---------------------------------------------------------------- units
def units(tier, seed):
    q = tier == "quick"
    us = []
    for bc in (False, True):
        tag = "bc" if bc else "plain"
        G = 5 if q else 6
        if bc:
            G = 4 if q else 5
        for nt in range(0, (4 if q else 5)):
            us.append({"name": f"contain-{tag}-nt{nt}", "fam": "contain", "nt": nt, "G": G,
                       "ncmax": 2 if q else 3, "boundscheck": bc})
            us.append({"name": f"touch-{tag}-nt{nt}", "fam": "touch", "nt": nt, "G": G if nt < 4 else G - 1,
                       "ncmax": 2 if (q or nt >= 4) else 3, "boundscheck": bc})
        us.append({"name": f"prevnext-{tag}", "fam": "prevnext", "G": G + 1, "boundscheck": bc})
        us.append({"name": f"overlap-{tag}", "fam": "overlap", "G": 6 if q else 8, "boundscheck": bc})
        us.append({"name": f"diffbreak-{tag}", "fam": "diffbreak", "G": G, "nmax": 3 if q else 4, "boundscheck": bc})
        us.append({"name": f"sort-{tag}", "fam": "sort", "n": 4 if q else 5, "boundscheck": bc})
        us.append({"name": f"reject-{tag}", "fam": "reject", "boundscheck": bc})
        nr = 2 if q else 12
        for k in range(nr):
            us.append({"name": f"random-{tag}-{k}", "fam": "random", "seed": seed * 1000 + k + (500 if bc else 0),
                       "n": 150 if q else 600, "boundscheck": bc})
    return us


def run_unit(u):
    acc = Acc()
    fam = u["fam"]
    if fam == "contain":
        ivs = all_intervals(u["G"])
        nt = u["nt"]
        for nc in range(0, u["ncmax"] + 1):
            conts_all = list(sorted_lists(nc, ivs, disjoint=True))
            for things in sorted_lists(nt, ivs):
                for conts in conts_all:
                    for enc in ("endtime", "dt"):
                        check_containment(acc, things, conts, enc, sample=(nt >= 2 and nc >= 1))
                        if nt or nc:
                            acc.distinct += 1
    elif fam == "touch":
        ivs = all_intervals(u["G"])
        nt = u["nt"]
        for nc in range(0, u["ncmax"] + 1):
            conts_all = list(sorted_lists(nc, ivs))
            for things in sorted_lists(nt, ivs):
                end_sorted = all(things[i][1] <= things[i + 1][1] for i in range(nt - 1))
                for conts in conts_all:
                    for w in range(-2, 4):
                        check_touching(acc, things, conts, w, "endtime", "dt", end_sorted,
                                       sample=(nt >= 2 and nc >= 1))
                        if nt or nc:
                            acc.distinct += 1
                    if end_sorted and nt and nc:
                        for w in (-1, 0, 2):
                            check_split_touching(acc, things, conts, w, "dt")
    elif fam == "prevnext":
        ivs = all_intervals(u["G"])
        for nt in range(0, 4):
            for ni in range(0, 4):
                ints_all = list(sorted_lists(ni, ivs, disjoint=True))
                for things in sorted_lists(nt, ivs, disjoint=True):
                    for ints in ints_all:
                        check_prev_next(acc, things, ints, "endtime" if (nt + ni) % 2 else "dt")
                        if nt or ni:
                            acc.distinct += 1
        acc.samples.append({"fn": "abs_time_to_prev_next_interval", "things": [(0, 2), (3, 4)], "intervals": [(2, 3)]})
    elif fam == "overlap":
        G = u["G"]
        for a1 in range(-G, G):
            for na in range(0, G):
                for b1 in range(-G, G):
                    for nb in range(0, G):
                        check_overlap(acc, a1, na, b1, nb)
                        if na and nb:
                            acc.distinct += 1
        # negative lengths must be refused
        for na, nb in ((-1, 2), (2, -1)):
            try:
                strax.overlap_indices(0, na, 0, nb)
                acc.viol("overlap_indices", "no-rejection", {"n_a": na, "n_b": nb}, "negative length accepted")
            except ValueError:
                acc.count("rejections")
        acc.samples.append({"fn": "overlap_indices", "a1": 0, "n_a": 3, "b1": 1, "n_b": 5})
    elif fam == "diffbreak":
        ivs = all_intervals(u["G"])
        for n in range(0, u["nmax"] + 1):
            for rows in sorted_lists(n, ivs):
                for enc in ("endtime", "dt"):
                    check_diff_break(acc, rows, enc)
                    if n:
                        acc.distinct += 1
        acc.samples.append({"fn": "diff/from_break", "rows": [(0, 2), (1, 5), (6, 7)]})
    elif fam == "sort":
        n = u["n"]
        times = (0, 1, 2)
        chans = (-1, 0, 3)
        for k in range(0, n + 1):
            for rows in itertools.product(itertools.product(times, chans), repeat=k):
                rows = [(t, c, i) for i, (t, c) in enumerate(rows)]
                check_sort(acc, rows, True)
                if k <= 4:
                    check_sort(acc, rows, False)
                if k >= 2:
                    acc.distinct += 1
        # the slow path: time range too large for the single-key trick
        big = np.iinfo(np.int64).max // 2
        for rows in itertools.product(itertools.product((0, 5, big), (0, 2, 7)), repeat=3):
            rows = [(t, c, i) for i, (t, c) in enumerate(rows)]
            check_sort(acc, rows, True, big=True)
            check_sort(acc, rows, False, big=True)
            acc.distinct += 1
        acc.samples.append({"fn": "sort_by_time", "rows": [(2, 0, 0), (1, 3, 1), (1, -1, 2)]})
    elif fam == "reject":
        check_rejections(acc)
        acc.distinct += 2
        acc.samples.append({"fn": "rejections", "unsorted": [(3, 4), (1, 2)]})
    elif fam == "random":
        rng = random.Random(u["seed"])
        for i in range(u["n"]):
            nt = rng.randint(0, 200 if i % 5 == 0 else 30)
            nc = rng.randint(0, 40 if i % 5 == 0 else 8)
            span = rng.choice([20, 100, 1000])
            ml = rng.choice([1, 3, 10, 40])
            things = random_sorted(rng, nt, span, ml)
            conts_d = random_sorted(rng, nc, span, ml * 3, disjoint=True)
            conts_o = random_sorted(rng, nc, span, ml * 3)
            enc = rng.choice(["endtime", "dt"])
            check_containment(acc, things, conts_d, enc, sample=i == 0)
            things_es = random_sorted(rng, nt, span, ml, sorted_end=True)
            w = rng.randint(-2, 3)
            check_touching(acc, things_es, conts_o, w, enc, rng.choice(["endtime", "dt"]), True)
            es = all(things[k][1] <= things[k + 1][1] for k in range(len(things) - 1))
            check_touching(acc, things, conts_o, w, "endtime", "dt", es)
            check_split_touching(acc, things_es, conts_o, w, enc)
            td = random_sorted(rng, min(nt, 40), span, ml, disjoint=True)
            idj = random_sorted(rng, nc, span, ml * 2, disjoint=True)
            check_prev_next(acc, td, idj, enc)
            check_diff_break(acc, things[:60], enc, safe_breaks=(rng.randint(0, 5),), not_befores=(rng.randint(0, span),))
            rows = [(rng.randint(0, 10), rng.choice([-1, 0, 1, 5, 100]), k) for k in range(rng.randint(0, 50))]
            check_sort(acc, rows, rng.random() < 0.7)
            acc.hashes.add(common.chash([things, conts_d, conts_o, things_es, td, idj, w, enc, rows]))
    else:
        raise ValueError(fam)
    return acc.result()


def replay(case):
    acc = Acc()
    fn = case.get("fn", "")
    t = lambda k: [tuple(x) for x in case.get(k, [])]  # noqa: E731
    if fn in ("fully_contained_in", "split_by_containment"):
        check_containment(acc, t("things"), t("containers"), case["enc"])
    elif fn == "touching_windows":
        things = t("things")
        es = all(things[i][1] <= things[i + 1][1] for i in range(len(things) - 1))
        check_touching(acc, things, t("containers"), case["window"], case["enc"][0], case["enc"][1], es)
    elif fn == "split_touching_windows":
        check_split_touching(acc, t("things"), t("containers"), case["window"], case["enc"])
    elif fn == "overlap_indices" and "a1" in case:
        check_overlap(acc, case["a1"], case["n_a"], case["b1"], case["n_b"])
    elif fn in ("diff", "from_break"):
        check_diff_break(acc, t("rows"), case["enc"],
                         safe_breaks=(case.get("safe_break", 1),), not_befores=(case.get("not_before", 0),))
    elif fn == "abs_time_to_prev_next_interval":
        check_prev_next(acc, t("things"), t("intervals"), case["enc"])
    elif fn == "sort_by_time":
        check_sort(acc, [tuple(r) for r in case["rows"]], case["with_channel"], case.get("big", False))
    else:
        check_rejections(acc)
    return acc.violations


def warm():
    """Touch every jitted function with every dtype the units use (single cache writer)."""
    acc = Acc()
    th = [(0, 2), (1, 3), (4, 5)]
    co = [(0, 3), (4, 6)]
    for enc in ("endtime", "dt"):
        check_containment(acc, th, co, enc)
        check_prev_next(acc, [(0, 1), (3, 4)], [(1, 2)], enc)
        check_diff_break(acc, th, enc)
        check_split_touching(acc, th, co, 0, enc)
        for enc2 in ("endtime", "dt"):
            check_touching(acc, th, co, 1, enc, enc2, True)
    check_overlap(acc, 0, 3, 1, 5)
    check_sort(acc, [(2, 0, 0), (1, 3, 1)], True)
    check_sort(acc, [(2, 0, 0), (1, 3, 1)], False)
    big = np.iinfo(np.int64).max // 2
    check_sort(acc, [(big, 0, 0), (1, 3, 1)], True, big=True)
    check_sort(acc, [(big, 0, 0), (1, 3, 1)], False, big=True)
    check_rejections(acc)
