"""C19 Peak clustering, summing, merging, splitting and waveform helpers.

Real strax functions are executed on generated hit sets / records / peaks and every
result is compared with a forward reference written from the definition (simulate,
then compare). Families: peaks (find_peaks, find_peak_groups), sumwf (sum_waveform,
store_downsampled_waveform), merge (merge_peaks, replace_merged, add_lone_hits),
split (split_peaks with both splitters), helpers (symmetric_moving_average,
index_of_fraction, compute_widths, compute_center_time, highest_density_region).
"""
import itertools
import math
import os
import random

import numpy as np

from vf import common

common.setup_env(boundscheck=bool(os.environ.get("NUMBA_BOUNDSCHECK")))
strax = common.import_strax()
from vf.checks.meta import META  # noqa: E402

PROPERTY = "C19"
LEVEL = "exploration"
TECHNIQUE = META["C19"]["technique"]
RULE = (
    "case = (function family, generated input, parameters); hit sets of 1..12 hits x 1..4 channels on a "
    "small time grid with gap thresholds / extensions / max durations / cuts swept (seeded random, distinct "
    "by hash), all float waveforms of <= 7 samples over {0,1,2,5} for the helpers (exhaustive, distinct by "
    "construction); non-trivial = input non-empty and at least one output row / sample was compared"
)
ASSUMPTIONS = [
    "find_peaks duration cut compared in the two regimes where the statement and the code agree on what "
    "'duration' means: left_extension = 0 with max_duration >= longest hit + extensions, or max_duration "
    "effectively infinite",
    "hits sorted by time, same dt, extensions multiples of dt; peaks disjoint and sorted for merging",
    "float32 arithmetic compared with relative tolerance 1e-4",
    "highest_density_region compared on waveforms with a unique maximum (ties at the maximum make the "
    "definition ambiguous)",
]
REQUIRED = {"find_peaks": 500, "sum_waveform": 200, "merge_peaks": 200, "replace_merged": 200,
            "add_lone_hits": 100, "split_peaks": 100, "moving_average": 500, "index_of_fraction": 300,
            "compute_widths": 100, "center_time": 200, "hdr": 300, "peaks_compared": 1000}
UNIT_TIMEOUT = 1500
NCH = 4
TO_PE = np.array([1.0, 2.0, 0.5, 1.0])
INF_DUR = 10_000_000


def close(a, b, tol=1e-4):
    return abs(float(a) - float(b)) <= tol * max(1.0, abs(float(a)), abs(float(b)))


def allclose(a, b, tol=1e-4):
    a = np.asarray(a, dtype=np.float64)
    b = np.asarray(b, dtype=np.float64)
    return a.shape == b.shape and bool(np.all(np.abs(a - b) <= tol * np.maximum(1.0, np.maximum(np.abs(a), np.abs(b)))))


class Acc:
    def __init__(self):
        self.evaluations = 0
        self.distinct = 0
        self.hashes = set()
        self.counters = {}
        self.samples = []
        self.violations = []

    def count(self, k, n=1):
        self.counters[k] = self.counters.get(k, 0) + n

    def viol(self, fn, kind, case, detail, exc=None, **extra):
        if len(self.violations) < 25:
            sig = {"fn": fn, "kind": kind}
            sig.update(extra)
            if exc is not None:
                sig.update(common.exc_sig(exc))
            case = dict(case, fn=fn, boundscheck=bool(os.environ.get("NUMBA_BOUNDSCHECK")))
            self.violations.append({"sig": sig, "what": f"{fn}: {kind}: {detail}"[:700], "case": case})

    def result(self):
        return dict(evaluations=self.evaluations, distinct=self.distinct, hashes=sorted(self.hashes),
                    counters=self.counters, samples=self.samples[:3], violations=self.violations)


def pdtype(ns):
    return strax.peak_dtype(n_channels=NCH, n_sum_wv_samples=ns)


# =============================================================== find_peaks
def mkhits(hits, dt=1):
    """hits: list of (time, length_in_samples, channel, area)"""
    h = np.zeros(len(hits), strax.hit_dtype)
    for i, (t, n, ch, area) in enumerate(hits):
        h[i]["time"] = t
        h[i]["length"] = n
        h[i]["dt"] = dt
        h[i]["channel"] = ch
        h[i]["area"] = area
    return h


def ref_find_peaks(hits, dt, gap, le, re_, maxdur, min_area, min_ch):
    """Forward reference clustering. Returns (all clusters, forced_split_overlap flag)."""
    clusters = []
    cur = None
    for (t, n, ch, area) in hits:
        t1 = t + n * dt
        if cur is not None:
            joins = (t - cur["end"] < gap) and (max(cur["end"], t1) - cur["first"] + le + re_ <= maxdur)
            if not joins:
                cur["split_gap"] = t - cur["end"]
                clusters.append(cur)
                cur = None
        if cur is None:
            cur = dict(first=t, end=t1, n=0, area=0.0, apc=[0.0] * NCH, max_gap=0, split_gap=None)
        else:
            cur["max_gap"] = max(cur["max_gap"], t - cur["end"])
        cur["n"] += 1
        cur["end"] = max(cur["end"], t1)
        a = np.float32(area) * TO_PE[ch]
        cur["area"] += float(a)
        cur["apc"][ch] += float(a)
    if cur is not None:
        clusters.append(cur)
    out = []
    for c in clusters:
        if c["area"] < min_area:
            continue
        if sum(1 for x in c["apc"] if x != 0) < min_ch:
            continue
        out.append(c)
    return clusters, out


def check_find_peaks(acc, case):
    hits = [tuple(h) for h in case["hits"]]
    dt, gap, le, re_ = case["dt"], case["gap"], case["le"], case["re"]
    maxdur, min_area, min_ch = case["maxdur"], case["min_area"], case["min_ch"]
    h = mkhits(hits, dt)
    acc.evaluations += 1
    try:
        peaks = strax.find_peaks(h, TO_PE, gap_threshold=gap, left_extension=le, right_extension=re_,
                                 min_area=min_area, min_channels=min_ch, max_duration=maxdur,
                                 result_dtype=pdtype(8))
        acc.count("find_peaks")
    except Exception as e:
        acc.viol("find_peaks", "exception", case, repr(e), e)
        return False
    allc, ref = ref_find_peaks(hits, dt, gap, le, re_, maxdur, min_area, min_ch)
    got = [(int(p["time"]), int(p["time"] + p["length"] * p["dt"]), int(p["n_hits"])) for p in peaks]
    want = [(c["first"] - le, c["end"] + re_, c["n"]) for c in ref]
    if got != want:
        acc.viol("find_peaks", "mismatch", case, f"(time,end,n_hits) got {got} want {want}")
        return True
    for p, c in zip(peaks, ref):
        acc.count("peaks_compared")
        if not close(p["area"], c["area"]) or not allclose(p["area_per_channel"], c["apc"]) \
                or int(p["max_gap"]) != c["max_gap"] or int(p["dt"]) != dt or int(p["channel"]) != -1:
            acc.viol("find_peaks", "mismatch", case,
                     f"peak at {int(p['time'])}: area {p['area']} apc {p['area_per_channel'].tolist()} "
                     f"max_gap {p['max_gap']} vs {c['area']} {c['apc']} {c['max_gap']}")
            return True
    # ordering and disjointness
    for i in range(len(peaks) - 1):
        a_end = int(peaks[i]["time"] + peaks[i]["length"] * peaks[i]["dt"])
        b_start = int(peaks[i + 1]["time"])
        if b_start < int(peaks[i]["time"]):
            acc.viol("find_peaks", "unordered", case, f"peaks {i},{i + 1} out of order")
            return True
        if b_start < a_end:
            # which reference cluster ended here, and was its end forced by the duration cut?
            c = ref[i]
            forced = c["split_gap"] is not None and c["split_gap"] < gap
            acc.viol("find_peaks", "overlap", case,
                     f"peaks [{int(peaks[i]['time'])},{a_end}) and [{b_start},..) overlap "
                     f"(split gap {c['split_gap']}, gap_threshold {gap}, extensions {le},{re_})",
                     forced_split=bool(forced))
            return True
    return True


def gen_find_peaks_case(rng):
    dt = rng.choice([1, 1, 2])
    n = rng.randint(1, 12)
    t = rng.randint(5, 20) * dt
    hits = []
    for _ in range(n):
        t += rng.choice([0, 0, 1, 2, 3, 5, 9, 14]) * dt
        hits.append((t, rng.choice([1, 2, 3, 6]), rng.randint(0, NCH - 1), rng.choice([0, 1, 2, 3])))
    regime = rng.choice(["A", "B"])
    longest = max(n_ * dt for _, n_, _, _ in hits)
    if regime == "A":
        le = 0
        re_ = rng.choice([0, 1, 2, 4]) * dt
        maxdur = longest + re_ + rng.choice([0, 1, 3, 8, 20, 40]) * dt
    else:
        le, re_ = rng.choice([(0, 0), (1, 2), (2, 1), (3, 3)])
        le *= dt
        re_ *= dt
        maxdur = INF_DUR
    gap = le + re_ + rng.choice([1, 2, 4, 8]) * dt
    return {"hits": hits, "dt": dt, "gap": gap, "le": le, "re": re_, "maxdur": maxdur, "regime": regime,
            "min_area": rng.choice([0, 0, 3, 6]), "min_ch": rng.choice([1, 1, 2, 3])}


def check_peak_groups(acc, case):
    """find_peak_groups: same clustering on peak intervals."""
    ivs = [tuple(x) for x in case["intervals"]]
    gap, le, re_ = case["gap"], case["le"], case["re"]
    pk = np.zeros(len(ivs), dtype=strax.time_fields)
    pk["time"] = [a for a, _ in ivs]
    pk["endtime"] = [b for _, b in ivs]
    acc.evaluations += 1
    try:
        t, e = strax.find_peak_groups(pk, gap, le, re_)
        acc.count("find_peak_groups")
    except Exception as ex:
        acc.viol("find_peak_groups", "exception", case, repr(ex), ex)
        return
    groups = []
    for a, b in ivs:
        if groups and a - groups[-1][1] < gap:
            groups[-1][1] = max(groups[-1][1], b)
        else:
            groups.append([a, b])
    want = [(a - le, b + re_) for a, b in groups]
    got = list(zip(map(int, t), map(int, e)))
    if got != want:
        acc.viol("find_peak_groups", "mismatch", case, f"got {got} want {want}")


# =============================================================== scenario with records
def mkrecords(pulses, L, dt, blfrac=0.0):
    from vf.checks.c18 import mkpulse

    recs = [mkpulse(list(w), ch, t0, L, dt, blfrac) for (w, ch, t0) in pulses]
    recs = np.concatenate(recs)
    order = np.lexsort((recs["channel"], recs["time"]))
    return recs[order]


def gen_scenario(rng, L=6):
    dt = rng.choice([1, 1, 2])
    pulses = []
    for ch in range(rng.randint(1, NCH)):
        t0 = rng.randint(4, 12) * dt
        for _ in range(rng.randint(1, 2)):
            n = rng.randint(1, 2 * L)
            w = [rng.choice([0, 0, 1, 2, 5, 9]) for _ in range(n)]
            pulses.append((w, ch, t0))
            t0 += (n + rng.randint(1, 12)) * dt
    le, re_ = rng.choice([(0, 0), (1, 2), (2, 1), (3, 3)])
    le *= dt
    re_ *= dt
    gap = le + re_ + rng.choice([1, 2, 4, 8]) * dt
    return {"pulses": pulses, "L": L, "dt": dt, "le": le, "re": re_, "gap": gap,
            "blfrac": rng.choice([0.0, 0.25, 0.5]), "ns": rng.choice([4, 8, 16]),
            "n_top": rng.choice([0, 2]), "thr": rng.choice([1, 2])}


def build_scenario(sc):
    recs = mkrecords([tuple(p) for p in sc["pulses"]], sc["L"], sc["dt"], sc.get("blfrac", 0.0))
    hits = strax.find_hits(recs, min_amplitude=sc.get("thr", 1))
    hits = strax.sort_by_time(hits)
    peaks = strax.find_peaks(hits, TO_PE, gap_threshold=sc["gap"], left_extension=sc["le"],
                             right_extension=sc["re"], min_area=0, min_channels=1,
                             max_duration=INF_DUR, result_dtype=pdtype(sc["ns"]))
    return recs, hits, peaks


def ref_sum_waveform(p_time, p_len, dt, hits, recs, ns, n_top):
    buf = np.zeros(p_len, dtype=np.float64)
    top = np.zeros(p_len, dtype=np.float64)
    apc = np.zeros(NCH, dtype=np.float64)
    p_end = p_time + p_len * dt
    for h in hits:
        r = recs[h["record_i"]]
        fp = float(np.float32(r["baseline"]) % 1)
        mult = 2 ** int(r["amplitude_bit_shift"])
        ch = int(h["channel"])
        for k in range(int(h["length"])):
            s = int(h["time"]) + k * dt
            if s < p_time or s >= p_end:
                continue
            ri = (s - int(r["time"])) // dt
            v = (float(r["data"][ri]) * mult + fp) * TO_PE[ch]
            buf[(s - p_time) // dt] += v
            if ch < n_top:
                top[(s - p_time) // dt] += v
            apc[ch] += v
    area = buf.sum()
    f = int(math.ceil(p_len / ns))
    if f > 1:
        n2 = p_len // f
        data = buf[: n2 * f].reshape(-1, f).sum(axis=1)
        dtop = top[: n2 * f].reshape(-1, f).sum(axis=1)
        return area, apc, data, dtop, n2, dt * f, buf
    return area, apc, buf, top, p_len, dt, buf


def check_sum_waveform(acc, sc):
    acc.evaluations += 1
    try:
        recs, hits, peaks = build_scenario(sc)
    except Exception as e:
        acc.viol("scenario(find_hits/find_peaks)", "exception", sc, repr(e), e)
        return False
    if not len(peaks):
        return False
    before = peaks.copy()
    n_top = sc["n_top"]
    try:
        rl = strax.record_links(recs)
        strax.sum_waveform(peaks, hits, recs, rl, TO_PE, n_top_channels=n_top,
                           store_data_top=n_top > 0, store_data_start=False)
        acc.count("sum_waveform")
    except Exception as e:
        acc.viol("sum_waveform", "exception", sc, repr(e), e)
        return True
    ns = sc["ns"]
    for i, p in enumerate(peaks):
        b = before[i]
        area, apc, data, dtop, n2, dt2, full = ref_sum_waveform(
            int(b["time"]), int(b["length"]), int(b["dt"]), hits, recs, ns, n_top)
        acc.count("peaks_compared")
        ok = close(p["area"], area) and allclose(p["area_per_channel"], apc) and int(p["length"]) == n2 \
            and int(p["dt"]) == dt2 and int(p["time"]) == int(b["time"]) \
            and allclose(p["data"][:n2], data)
        if ok and n_top > 0:
            ok = allclose(p["data_top"][:n2], dtop)
        # find_peaks' own area (from hit areas) must agree with the integrated waveform
        if ok and not close(b["area"], area, 1e-3):
            acc.viol("sum_waveform", "mismatch", sc,
                     f"peak {i}: find_peaks area {b['area']} != integrated waveform {area}")
            return True
        # conservation after down-sampling: data sum == area minus the documented truncated tail
        if ok:
            tail = float(full[n2 * (dt2 // int(b["dt"])):].sum())
            if not close(float(p["data"][:n2].sum()), area - tail, 1e-3):
                ok = False
        if not ok:
            acc.viol("sum_waveform", "mismatch", sc,
                     f"peak {i} t={int(b['time'])} len={int(b['length'])}: got area {p['area']} len {p['length']} "
                     f"dt {p['dt']} data {p['data'][:n2 + 1].tolist()} want area {area} len {n2} dt {dt2} data {data.tolist()}")
            return True
    # ---- peak windows that do NOT come from find_peaks (as after splitting, or with a small max_duration): sorted
    # disjoint windows that may start and end in the middle of hits
    import random as _random

    rng = _random.Random(common.chash(sc))
    dt = sc["dt"]
    lo = int(hits["time"].min()) - 2 * dt
    hi = int((hits["time"] + hits["length"] * hits["dt"]).max()) + 2 * dt
    pts = sorted(set(rng.sample(range(lo, hi + dt, dt), min(rng.randint(2, 6), (hi - lo) // dt + 1))))
    wins = [(a, b) for a, b in zip(pts[:-1], pts[1:]) if rng.random() < 0.8]
    if wins:
        p2 = np.zeros(len(wins), dtype=pdtype(ns))
        p2["time"] = [a for a, b in wins]
        p2["length"] = [(b - a) // dt for a, b in wins]
        p2["dt"] = dt
        p2["channel"] = -1
        try:
            strax.sum_waveform(p2, hits, recs, rl, TO_PE, n_top_channels=n_top, store_data_top=n_top > 0, store_data_start=False)
            acc.count("sum_waveform_free_windows")
        except Exception as e:
            acc.viol("sum_waveform", "exception", dict(sc, windows=wins), repr(e), e)
            return True
        for i, (a, b) in enumerate(wins):
            area, apc, data, dtop, n2, dt2, full = ref_sum_waveform(a, (b - a) // dt, dt, hits, recs, ns, n_top)
            p = p2[i]
            acc.count("peaks_compared")
            if not (close(p["area"], area) and allclose(p["area_per_channel"], apc) and int(p["length"]) == n2
                    and int(p["dt"]) == dt2 and allclose(p["data"][:n2], data)):
                acc.viol("sum_waveform", "mismatch", dict(sc, windows=wins),
                         f"free window [{a},{b}): got area {p['area']} apc {p['area_per_channel'].tolist()} data "
                         f"{p['data'][:n2 + 1].tolist()} want area {area} apc {apc.tolist()} data {data.tolist()}")
                return True
    return True


def check_store_downsampled(acc, case):
    ns, n = case["ns"], case["n"]
    wf = np.array(case["wf"], dtype=np.float32)
    p = np.zeros(1, dtype=pdtype(ns))
    p["length"] = n
    p["dt"] = case["dt"]
    buf = np.zeros(2 * n + 4, dtype=np.float32)
    buf[:n] = wf
    acc.evaluations += 1
    try:
        strax.store_downsampled_waveform(p[0], buf, False, True)
        acc.count("store_downsampled")
    except Exception as e:
        acc.viol("store_downsampled_waveform", "exception", case, repr(e), e)
        return
    f = int(math.ceil(n / ns))
    n2 = n // f if f > 1 else n
    want = wf[: n2 * f].reshape(-1, f).sum(axis=1) if f > 1 else wf
    ok = int(p[0]["length"]) == n2 and int(p[0]["dt"]) == case["dt"] * (f if f > 1 else 1) \
        and allclose(p[0]["data"][:n2], want) and not p[0]["data"][n2:].any()
    # the shortened peak may never extend beyond the original end (no overlap with the next peak)
    ok = ok and int(p[0]["length"]) * int(p[0]["dt"]) <= n * case["dt"]
    m = min(n, ns)
    ok = ok and allclose(p[0]["data_start"][:m], wf[:m])
    if not ok:
        acc.viol("store_downsampled_waveform", "mismatch", case,
                 f"got len {p[0]['length']} dt {p[0]['dt']} data {p[0]['data'].tolist()} want len {n2} data {want.tolist()}")


# =============================================================== merging
def mkpeaks(specs, ns):
    """specs: list of dict(time, dt, data(list), n_hits, apc(list))"""
    p = np.zeros(len(specs), dtype=pdtype(ns))
    for i, s in enumerate(specs):
        d = np.array(s["data"], dtype=np.float32)
        p[i]["time"] = s["time"]
        p[i]["dt"] = s["dt"]
        p[i]["length"] = len(d)
        p[i]["data"][: len(d)] = d
        p[i]["data_top"][: len(d)] = d / 2
        p[i]["area"] = d.sum()
        apc = np.array(s.get("apc", [d.sum(), 0, 0, 0]), dtype=np.float32)
        p[i]["area_per_channel"] = apc
        p[i]["n_hits"] = s.get("n_hits", 1)
        p[i]["channel"] = -1
        p[i]["max_diff"] = s.get("max_diff", 3)
        p[i]["min_diff"] = s.get("min_diff", 1)
    return p


def gen_peak_specs(rng, n, ns):
    specs = []
    t = rng.randint(0, 10) * 2
    for i in range(n):
        dt = rng.choice([1, 1, 2, 4])
        t = ((t + dt - 1) // dt) * dt
        ln = rng.randint(1, ns)
        data = [float(rng.choice([0, 1, 2, 5])) for _ in range(ln)]
        a = float(sum(data))
        specs.append({"time": t, "dt": dt, "data": data, "n_hits": rng.randint(1, 4),
                      "apc": [a / 2, a / 4, a / 4, 0.0]})
        t += ln * dt + rng.choice([0, 0, 1, 3, 8])
    return specs


def check_merge(acc, case):
    ns = case["ns"]
    specs = case["peaks"]
    groups = [tuple(g) for g in case["groups"]]
    peaks = mkpeaks(specs, ns)
    before = peaks.copy()
    acc.evaluations += 1
    try:
        merged = strax.merge_peaks(peaks, np.array([g[0] for g in groups], dtype=np.int64),
                                   np.array([g[1] for g in groups], dtype=np.int64), max_buffer=case.get("max_buffer", 400))
        acc.count("merge_peaks")
    except Exception as e:
        acc.viol("merge_peaks", "exception", case, repr(e), e)
        return
    if not np.array_equal(before, peaks):
        acc.viol("merge_peaks", "mismatch", case, "input peaks modified")
        return
    if len(merged) != len(groups):
        acc.viol("merge_peaks", "mismatch", case, f"{len(merged)} merged peaks for {len(groups)} groups")
        return
    for (a, b), m in zip(groups, merged):
        old = specs[a:b]
        cdt = 0
        for s in old:
            cdt = math.gcd(cdt, s["dt"])
        t0 = old[0]["time"]
        last_end = old[-1]["time"] + len(old[-1]["data"]) * old[-1]["dt"]
        n = (last_end - t0) // cdt
        buf = np.zeros(n, dtype=np.float64)
        for s in old:
            up = s["dt"] // cdt
            i0 = (s["time"] - t0) // cdt
            rep = np.repeat(np.array(s["data"], dtype=np.float64), up) / up
            buf[i0: i0 + len(rep)] = rep
        f = int(math.ceil(n / ns))
        if f > 1:
            n2 = n // f
            want = buf[: n2 * f].reshape(-1, f).sum(axis=1)
            dt2 = cdt * f
        else:
            n2, want, dt2 = n, buf, cdt
        area = sum(float(np.float32(sum(s["data"]))) for s in old)
        end_got = int(m["time"]) + int(m["length"]) * int(m["dt"])
        ok = int(m["time"]) == t0 and int(m["dt"]) == dt2 and int(m["length"]) == n2 \
            and 0 <= last_end - end_got < max(dt2, 1) + (cdt if False else 0) + 0 \
            and close(m["area"], area) and int(m["n_hits"]) == sum(s["n_hits"] for s in old) \
            and allclose(m["area_per_channel"], np.sum([s["apc"] for s in old], axis=0)) \
            and allclose(m["data"][:n2], want) and allclose(m["data_top"][:n2], want / 2)
        acc.count("peaks_compared")
        if not ok:
            acc.viol("merge_peaks", "mismatch", dict(case, group=[a, b]),
                     f"group {a}:{b}: got time {m['time']} dt {m['dt']} len {m['length']} area {m['area']} n_hits "
                     f"{m['n_hits']} data {m['data'][:n2 + 1].tolist()} want time {t0} dt {dt2} len {n2} area {area} "
                     f"data {want.tolist()} last_end {last_end}")
            return


def check_replace_merged(acc, case):
    ivs = [tuple(x) for x in case["orig"]]
    groups = [tuple(g) for g in case["groups"]]
    dt = strax.time_fields + [(("payload", "pl"), np.int32)]
    orig = np.zeros(len(ivs), dtype=dt)
    orig["time"] = [a for a, _ in ivs]
    orig["endtime"] = [b for _, b in ivs]
    orig["pl"] = np.arange(len(ivs)) + 1
    merge = np.zeros(len(groups), dtype=dt)
    for k, (a, b) in enumerate(groups):
        merge[k]["time"] = ivs[a][0]
        merge[k]["endtime"] = ivs[b - 1][1]
        merge[k]["pl"] = -(k + 1)
    acc.evaluations += 1
    try:
        res = strax.replace_merged(orig.copy(), merge.copy())
        acc.count("replace_merged")
    except Exception as e:
        acc.viol("replace_merged", "exception", case, repr(e), e)
        return
    # definition: merge + members of orig that do not touch (overlap) any merged interval, sorted by time
    keep = [o for o in orig if not any(o["endtime"] > m["time"] and o["time"] < m["endtime"] for m in merge)]
    want = sorted([tuple(x) for x in keep] + [tuple(x) for x in merge], key=lambda r: r[0])
    got = [tuple(x) for x in res.tolist()]
    if got != [tuple(int(v) for v in w) for w in want]:
        acc.viol("replace_merged", "mismatch", case, f"got {got} want {want}")


def check_add_lone_hits(acc, case):
    ns = case["ns"]
    peaks = mkpeaks(case["peaks"], ns)
    before = peaks.copy()
    lh = mkhits([tuple(h) for h in case["lone_hits"]], 1)
    acc.evaluations += 1
    try:
        strax.add_lone_hits(peaks, lh, TO_PE, n_top_channels=2, store_data_top=True, store_data_start=False)
        acc.count("add_lone_hits")
    except Exception as e:
        acc.viol("add_lone_hits", "exception", case, repr(e), e)
        return
    want = before.copy()
    for (t, n, ch, area) in [tuple(h) for h in case["lone_hits"]]:
        for i, s in enumerate(case["peaks"]):
            end = s["time"] + len(s["data"]) * s["dt"]
            if s["time"] <= t and t + n <= end:
                a = np.float32(area) * np.float32(TO_PE[ch])
                want[i]["area"] += a
                want[i]["area_per_channel"][ch] += a
                idx = (t - s["time"]) // s["dt"]
                want[i]["data"][idx] += a
                if ch < 2:
                    want[i]["data_top"][idx] += a
                break
    for f in ("area", "area_per_channel", "data", "data_top"):
        if not allclose(peaks[f], want[f]):
            acc.viol("add_lone_hits", "mismatch", case, f"field {f}: got {peaks[f].tolist()} want {want[f].tolist()}")
            return
    for f in peaks.dtype.names:
        if f not in ("area", "area_per_channel", "data", "data_top") and not np.array_equal(peaks[f], before[f]):
            acc.viol("add_lone_hits", "mismatch", case, f"field {f} altered")
            return


# =============================================================== splitting
def check_split(acc, sc):
    acc.evaluations += 1
    try:
        recs, hits, peaks = build_scenario(sc)
        if not len(peaks):
            return False
        rl = strax.record_links(recs)
        strax.sum_waveform(peaks, hits, recs, rl, TO_PE)
        strax.compute_properties(peaks)
    except Exception as e:
        acc.viol("scenario(sum_waveform)", "exception", sc, repr(e), e)
        return False
    parents = [(int(p["time"]), int(p["time"] + p["length"] * p["dt"])) for p in peaks]
    algo = sc["algo"]
    kw = {}
    if algo == "natural_breaks":
        thr = sc["nb_threshold"]
        kw = dict(threshold=lambda pk: np.ones(len(pk), dtype=np.float64) * thr, normalize=sc.get("normalize", False),
                  split_low=sc.get("split_low", False), filter_wing_width=sc.get("fww", 0))
    else:
        kw = dict(min_height=sc.get("min_height", 0), min_ratio=sc.get("min_ratio", 0))
    try:
        out = strax.split_peaks(peaks.copy(), hits, recs, rl, TO_PE, algorithm=algo, data_type="peaks",
                                do_iterations=sc.get("iters", 1), min_area=0, **kw)
        acc.count("split_peaks")
    except Exception as e:
        acc.viol("split_peaks", "exception", dict(sc), repr(e), e, algo=algo)
        return True
    # children tile each parent
    outs = sorted((int(p["time"]), int(p["time"] + p["length"] * p["dt"]), int(p["dt"])) for p in out)
    if len(out) > len(peaks):
        acc.count("split_happened")
    for (a, b) in parents:
        kids = [o for o in outs if a <= o[0] < b]
        acc.count("peaks_compared")
        pos = a
        bad = None
        # Exact tiling is required whenever no down-sampling can occur in this parent's family
        # (parent fits in the waveform buffer). Otherwise each down-sampling step may shorten a
        # (grand)child by less than one of its coarse samples (documented truncation in
        # store_downsampled_waveform): children must still be ordered, disjoint, start at the parent
        # start, stay inside the parent, and leave only gaps below that bound.
        n_base = (b - a) // sc["dt"]
        fmax = int(math.ceil(n_base / sc["ns"]))
        slack = 1 if fmax <= 1 else sc.get("iters", 1) * fmax * sc["dt"]
        for k_i, (s_, e, d) in enumerate(kids):
            if not (pos <= s_ < pos + (slack if k_i else 1)):
                bad = f"child starts at {s_}, expected {pos} (slack {slack})"
                break
            pos = e
        if bad is None and not (kids and 0 <= b - pos < slack):
            bad = f"children end at {pos}, parent ends at {b} (slack {slack})"
        acc.count("split_exact_tiling" if fmax <= 1 else "split_weak_tiling")
        if bad:
            acc.viol("split_peaks", "tiling", dict(sc), f"parent [{a},{b}): {bad}; children {kids}", algo=algo)
            return True
    # every child is re-summed from the records: its area is the integral of the waveform over ITS time span
    if len(out) > len(peaks):
        for o in out:
            a, ln, d = int(o["time"]), int(o["length"]), int(o["dt"])
            if d != sc["dt"]:
                continue  # down-sampled child: its stored span may be shorter than what was summed (documented truncation)
            area = ref_sum_waveform(a, (ln * d) // sc["dt"], sc["dt"], hits, recs, 10 ** 6, 0)[0]
            acc.count("split_child_areas")
            if not close(o["area"], area, 1e-3):
                acc.viol("split_peaks", "area", dict(sc), f"child [{a},{a + ln * d}) has area {o['area']}, the waveform "
                                                            f"over that span integrates to {area}", algo=algo)
                return True
    return True


def check_split_points(acc, case):
    """find_split_points level: indices strictly increasing inside the waveform, last == len(w)."""
    from strax.processing import peak_splitting as ps

    w = np.array(case["w"], dtype=np.float32)
    acc.evaluations += 1
    try:
        if case["algo"] == "local_minimum":
            pts = list(ps.LocalMinimumSplitter.find_split_points(w, 1, 0, case["min_height"], case["min_ratio"]))
        else:
            pts = list(ps.NaturalBreaksSplitter.find_split_points(
                w, 1, 0, np.array([case["thr"]], dtype=np.float64), False, False, 0))
        acc.count("split_points")
    except Exception as e:
        acc.viol("find_split_points", "exception", case, repr(e), e, algo=case["algo"])
        return
    idx = [int(i) for i, _ in pts if int(i) != ps.NO_MORE_SPLITS]
    if not idx:
        return
    ok = all(0 < i for i in idx) and all(x < y for x, y in zip(idx, idx[1:])) and idx[-1] == len(w)
    if not ok:
        acc.viol("find_split_points", "tiling", case,
                 f"split indices {idx} do not tile [0,{len(w)})", algo=case["algo"])


# =============================================================== helpers
def check_moving_average(acc, w, wing):
    a = np.array(w, dtype=np.float64)
    acc.evaluations += 1
    case = {"w": list(w), "wing": wing}
    try:
        got = strax.processing.peak_splitting.symmetric_moving_average(a.copy(), wing)
        acc.count("moving_average")
    except Exception as e:
        acc.viol("symmetric_moving_average", "exception", case, repr(e), e)
        return
    n = len(a)
    want = [a[max(0, i - wing): min(n, i + wing + 1)].mean() for i in range(n)]
    if not allclose(got, want, 1e-9):
        acc.viol("symmetric_moving_average", "mismatch", case, f"got {np.asarray(got).tolist()} want {want}")


def ref_index_of_fraction(d, area, fr, length):
    if fr >= 1:
        return float(length)
    c = 0.0
    need = fr * area
    for i, x in enumerate(d):
        if c + x >= need - 1e-9 * max(1.0, area):
            return i + ((need - c) / x if x != 0 else 0.0)
        c += x
    return float(length)


def mk_data_peaks(wfs, ns, dt=1, t0=100):
    p = np.zeros(len(wfs), dtype=pdtype(ns))
    for i, w in enumerate(wfs):
        p[i]["time"] = t0 + 1000 * i
        p[i]["dt"] = dt
        p[i]["length"] = len(w)
        p[i]["data"][: len(w)] = w
        p[i]["area"] = np.float32(sum(w))
    return p


def check_fraction_helpers(acc, wfs, ns, dt):
    case = {"wfs": [list(w) for w in wfs], "ns": ns, "dt": dt}
    p = mk_data_peaks(wfs, ns, dt)
    fr = np.array([0.0, 0.1, 0.25, 0.5, 0.75, 0.9, 1.0])
    acc.evaluations += 1
    try:
        got = strax.index_of_fraction(p, fr)
        acc.count("index_of_fraction", len(wfs))
    except Exception as e:
        acc.viol("index_of_fraction", "exception", case, repr(e), e)
        return
    def cum(w, x):
        k = int(math.floor(x))
        c = float(sum(w[:k]))
        if k < len(w):
            c += (x - k) * w[k]
        return c

    for i, w in enumerate(wfs):
        a = float(sum(w))
        if a <= 0:
            continue
        # defining property: the cumulative (linearly interpolated) area at the returned index equals
        # fraction x total area; flat stretches (zero samples) make the index non-unique, any is accepted
        for f, x in zip(fr, got[i]):
            x = float(x)
            ok = 0 <= x <= len(w) and abs(cum(w, x) - f * a) <= 2e-3 * a
            if f >= 1:
                ok = ok and x == len(w)
            if not ok:
                acc.viol("index_of_fraction", "mismatch", dict(case, i=i),
                         f"wf {list(w)}: fraction {f}: index {x} has cumulative area {cum(w, x)} want {f * a}")
                return
    pos = [i for i, w in enumerate(wfs) if sum(w) > 0]
    if not pos:
        return
    pp = p[pos]
    try:
        med, width, adm = strax.compute_widths(pp)
        acc.count("compute_widths", len(pos))
        ct = strax.processing.peak_properties.compute_center_time(pp)
        acc.count("center_time", len(pos))
    except Exception as e:
        acc.viol("compute_widths/center_time", "exception", case, repr(e), e)
        return
    for k, i in enumerate(pos):
        w = wfs[i]
        a = float(sum(w))
        need = sorted({round(0.5 + j / 20, 4) for j in range(-10, 11)} | {round(j / 10, 4) for j in range(11)})
        iof = strax.index_of_fraction(pp[k: k + 1], np.array(need))[0]
        tmap = {f: float(x) * dt for f, x in zip(need, iof)}
        t = lambda f: tmap[round(f, 4)]  # noqa: E731
        want_w = [0.0] + [t(0.5 + j / 20) - t(0.5 - j / 20) for j in range(1, 11)]
        want_adm = [t(j / 10) - t(0.5) for j in range(0, 11)]
        if not close(med[k], t(0.5), 1e-3) or not allclose(width[k], want_w, 2e-3) or not allclose(adm[k], want_adm, 2e-3):
            acc.viol("compute_widths", "mismatch", dict(case, i=i),
                     f"wf {list(w)}: median {med[k]} width {width[k].tolist()} adm {adm[k].tolist()} want {t(0.5)} {want_w} {want_adm}")
            return
        mean_i = sum(j * x for j, x in enumerate(w)) / a
        want_ct = int(pp[k]["time"]) + int(math.floor((mean_i + 0.5) * dt + 1e-9))
        want_ct = min(max(want_ct, int(pp[k]["time"])), int(pp[k]["time"]) + len(w) * dt)
        if abs(int(ct[k]) - want_ct) > (1 if abs((mean_i + 0.5) * dt - round((mean_i + 0.5) * dt)) < 1e-6 else 0):
            acc.viol("compute_center_time", "mismatch", dict(case, i=i), f"wf {list(w)}: got {int(ct[k])} want {want_ct}")
            return


def ref_hdr(d, fractions, upper, buffer_size=10):
    a = float(sum(d))
    levels = sorted(set(d), reverse=True)[1:]  # thresholds v: region {i: d_i > v}
    out = []
    for f in fractions:
        ans = None
        for v in levels:
            S = [i for i, x in enumerate(d) if x > v]
            frac = sum(d[i] - (v if upper else 0) for i in S) / a
            if frac >= f - 1e-12:
                ans = S
                break
        if ans is None:
            out.append([(0, len(d))])
            continue
        runs = []
        for i in ans:
            if runs and runs[-1][1] == i:
                runs[-1][1] = i + 1
            else:
                runs.append([i, i + 1])
        out.append([tuple(r) for r in runs] if len(runs) - 1 <= buffer_size else None)
    return out


def check_hdr(acc, w, upper):
    d = list(w)
    fr = np.array([0.2, 0.5, 0.7, 0.9])
    case = {"w": d, "upper": upper}
    acc.evaluations += 1
    try:
        res, amp = strax.highest_density_region(np.array(d, dtype=np.float64), fr, only_upper_part=upper)
        acc.count("hdr")
    except Exception as e:
        acc.viol("highest_density_region", "exception", case, repr(e), e)
        return
    want = ref_hdr(d, list(fr), upper)
    for k in range(len(fr)):
        if want[k] is None:
            continue
        got = [(int(res[k, 0, j]), int(res[k, 1, j])) for j in range(len(want[k]))]
        rest = res[k, :, len(want[k]):]
        if got != want[k] or rest.any():
            acc.viol("highest_density_region", "mismatch", dict(case, fraction=float(fr[k])),
                     f"fraction {fr[k]}: got {res[k].tolist()} want {want[k]}")
            return


# =============================================================== units
def units(tier, seed):
    q = tier == "quick"
    us = []
    for bc in (False, True):
        tag = "bc" if bc else "plain"
        k = 1 if bc else 2
        for i in range((2 if q else 8) * k):
            us.append({"name": f"peaks-{tag}-{i}", "fam": "peaks", "seed": seed * 7919 + i + (100 if bc else 0),
                       "n": 400 if q else 2500, "boundscheck": bc})
        for i in range((2 if q else 6) * k):
            us.append({"name": f"sumwf-{tag}-{i}", "fam": "sumwf", "seed": seed * 7919 + i + (100 if bc else 0),
                       "n": 120 if q else 800, "boundscheck": bc})
        for i in range((1 if q else 4) * k):
            us.append({"name": f"merge-{tag}-{i}", "fam": "merge", "seed": seed * 7919 + i + (100 if bc else 0),
                       "n": 200 if q else 1500, "boundscheck": bc})
        for i in range((2 if q else 6) * k):
            us.append({"name": f"split-{tag}-{i}", "fam": "split", "seed": seed * 7919 + i + (100 if bc else 0),
                       "n": 100 if q else 600, "boundscheck": bc})
        for n in range(1, (7 if q else 8) if not bc else (6 if q else 7)):
            us.append({"name": f"helpers-{tag}-n{n}", "fam": "helpers", "n": n, "boundscheck": bc})
    return us


ALPHA = (0.0, 1.0, 2.0, 5.0)


def run_unit(u):
    acc = Acc()
    fam = u["fam"]
    if fam == "peaks":
        rng = random.Random(u["seed"])
        for i in range(u["n"]):
            case = gen_find_peaks_case(rng)
            if check_find_peaks(acc, case):
                acc.hashes.add(common.chash(case))
            if i < 1:
                acc.samples.append(dict(case, fn="find_peaks"))
            if i % 10 == 0:
                ivs = []
                t = rng.randint(0, 10)
                for _ in range(rng.randint(1, 8)):
                    t += rng.choice([0, 1, 3, 7, 12])
                    ln = rng.randint(1, 6)
                    ivs.append((t, t + ln))
                    t += ln
                le, re_ = rng.choice([(0, 0), (1, 2), (3, 1)])
                check_peak_groups(acc, {"intervals": ivs, "gap": le + re_ + rng.choice([1, 2, 5]), "le": le, "re": re_})
    elif fam == "sumwf":
        rng = random.Random(u["seed"])
        for i in range(u["n"]):
            sc = gen_scenario(rng)
            if check_sum_waveform(acc, sc):
                acc.hashes.add(common.chash(sc))
            if i < 1:
                acc.samples.append(dict(sc, fn="sum_waveform"))
            n = rng.randint(1, 20)
            check_store_downsampled(acc, {"ns": rng.choice([4, 8]), "n": n, "dt": rng.choice([1, 2, 10]),
                                          "wf": [float(rng.choice([0, 1, 2, 5])) for _ in range(n)]})
    elif fam == "merge":
        rng = random.Random(u["seed"])
        for i in range(u["n"]):
            ns = rng.choice([4, 8, 16])
            specs = gen_peak_specs(rng, rng.randint(2, 6), ns)
            # random disjoint consecutive groups
            groups = []
            a = 0
            while a < len(specs):
                if rng.random() < 0.6:
                    b = rng.randint(a + 1, len(specs))
                    groups.append((a, b))
                    a = b
                else:
                    a += 1
            case = {"ns": ns, "peaks": specs, "groups": groups}
            if groups:
                check_merge(acc, case)
                acc.hashes.add(common.chash(case))
            ivs = [(s["time"], s["time"] + len(s["data"]) * s["dt"]) for s in specs]
            g2 = [g for g in groups if g[1] - g[0] >= 1]
            check_replace_merged(acc, {"orig": ivs, "groups": g2})
            lone = []
            for s in specs:
                if rng.random() < 0.7:
                    end = s["time"] + len(s["data"]) * s["dt"]
                    t = rng.randint(s["time"], end - 1)
                    lone.append((t, 1, rng.randint(0, NCH - 1), rng.choice([1, 2, 3])))
                if rng.random() < 0.3:
                    lone.append((s["time"] + len(s["data"]) * s["dt"], 1, 0, 4))  # just outside: ignored
            lone = sorted(lone)
            if lone and all(lone[i][0] + 1 <= lone[i + 1][0] or True for i in range(len(lone) - 1)):
                check_add_lone_hits(acc, {"ns": ns, "peaks": specs, "lone_hits": lone})
            if i < 1:
                acc.samples.append(dict(case, fn="merge_peaks"))
    elif fam == "split":
        rng = random.Random(u["seed"])
        for i in range(u["n"]):
            sc = gen_scenario(rng)
            sc["ns"] = rng.choice([16, 32])
            sc["algo"] = rng.choice(["local_minimum", "natural_breaks"])
            sc["iters"] = rng.choice([1, 1, 2])
            if sc["algo"] == "natural_breaks":
                sc["nb_threshold"] = rng.choice([0.05, 0.2, 0.4])
                sc["split_low"] = rng.random() < 0.3
            else:
                sc["min_height"] = rng.choice([0, 0.5, 1])
                sc["min_ratio"] = rng.choice([0, 1.5])
            if check_split(acc, sc):
                acc.hashes.add(common.chash(sc))
            if i < 1:
                acc.samples.append(dict(sc, fn="split_peaks"))
            w = [float(rng.choice([0, 1, 2, 5, 9])) for _ in range(rng.randint(2, 12))]
            check_split_points(acc, {"algo": "local_minimum", "w": w, "min_height": rng.choice([0, 1]), "min_ratio": 0})
            check_split_points(acc, {"algo": "natural_breaks", "w": w, "thr": rng.choice([0.1, 0.3])})
    elif fam == "helpers":
        n = u["n"]
        for w in itertools.product(ALPHA, repeat=n):
            for wing in range(0, 4):
                check_moving_average(acc, w, wing)
            if sum(w) > 0:
                acc.distinct += 1
                check_fraction_helpers(acc, [w], 8, 1 if (int(sum(w)) % 2) else 2)
                if list(w).count(max(w)) == 1 and n >= 2:
                    check_hdr(acc, w, False)
                    check_hdr(acc, w, True)
        acc.samples.append({"fn": "helpers", "w": [0.0, 5.0, 1.0, 2.0][:n], "wing": 1})
    return acc.result()


def replay(case):
    acc = Acc()
    fn = case.get("fn", "")
    base = {k: v for k, v in case.items() if k not in ("fn", "boundscheck")}
    if fn == "find_peaks":
        check_find_peaks(acc, base)
    elif fn == "find_peak_groups":
        check_peak_groups(acc, base)
    elif fn in ("sum_waveform", "scenario(find_hits/find_peaks)"):
        check_sum_waveform(acc, base)
    elif fn == "store_downsampled_waveform":
        check_store_downsampled(acc, base)
    elif fn == "merge_peaks":
        base.pop("group", None)
        check_merge(acc, base)
    elif fn == "replace_merged":
        check_replace_merged(acc, base)
    elif fn == "add_lone_hits":
        check_add_lone_hits(acc, base)
    elif fn in ("split_peaks", "scenario(sum_waveform)"):
        check_split(acc, base)
    elif fn == "find_split_points":
        check_split_points(acc, base)
    elif fn == "symmetric_moving_average":
        check_moving_average(acc, base["w"], base["wing"])
    elif fn in ("index_of_fraction", "compute_widths", "compute_center_time", "compute_widths/center_time"):
        check_fraction_helpers(acc, base["wfs"], base["ns"], base["dt"])
    elif fn == "highest_density_region":
        check_hdr(acc, base["w"], base["upper"])
    return acc.violations


def warm():
    acc = Acc()
    rng = random.Random(1)
    for _ in range(3):
        check_find_peaks(acc, gen_find_peaks_case(rng))
    check_peak_groups(acc, {"intervals": [(0, 2), (5, 6)], "gap": 2, "le": 0, "re": 0})
    for ns in (4, 8, 16):
        sc = gen_scenario(rng)
        sc["ns"] = ns
        check_sum_waveform(acc, sc)
        check_store_downsampled(acc, {"ns": ns if ns < 16 else 8, "n": 5, "dt": 1, "wf": [1.0, 2, 0, 5, 1]})
        specs = gen_peak_specs(rng, 3, ns)
        check_merge(acc, {"ns": ns, "peaks": specs, "groups": [(0, 2)]})
        check_add_lone_hits(acc, {"ns": ns, "peaks": specs, "lone_hits": [(specs[0]["time"], 1, 0, 1)]})
    check_replace_merged(acc, {"orig": [(0, 2), (3, 4), (6, 7)], "groups": [(0, 2)]})
    for ns in (16, 32):
        for algo in ("local_minimum", "natural_breaks"):
            sc = gen_scenario(rng)
            sc.update(ns=ns, algo=algo, iters=1, nb_threshold=0.1, min_height=0, min_ratio=0)
            check_split(acc, sc)
    check_split_points(acc, {"algo": "local_minimum", "w": [1.0, 5, 0, 5], "min_height": 0, "min_ratio": 0})
    check_split_points(acc, {"algo": "natural_breaks", "w": [1.0, 5, 0, 5], "thr": 0.1})
    check_moving_average(acc, (1.0, 2.0, 5.0), 1)
    check_fraction_helpers(acc, [(1.0, 2.0, 5.0)], 8, 1)
    check_hdr(acc, (1.0, 2.0, 5.0), True)
