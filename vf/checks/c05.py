"""C05 A mailbox delivers every message exactly once, in order, to every subscriber.

The real strax.Mailbox (and divide_outputs) run under the cooperative deterministic
scheduler (vf.sched.coop): the module-level names `threading`, `Future`, `TimeoutError`
and `heapq` of strax.mailbox are replaced by cooperative stand-ins, so every lock /
condition / thread / future operation is a scheduling point and timeouts run on a
virtual clock. Small configurations are explored systematically (all schedules that
deviate from the non-preemptive default at <= D decisions) and with seeded random and
PCT choosers; a final pass uses real threads with a 1 us switch interval.
"""
import heapq as _heapq
import itertools
import random
import sys
import threading as _real_threading

from vf import common

common.setup_env()
strax = common.import_strax()
import strax.mailbox as smb  # noqa: E402

from vf.checks.meta import META  # noqa: E402
from vf.sched import coop  # noqa: E402

PROPERTY = "C05"
LEVEL = "exploration"
TECHNIQUE = META["C05"]["technique"]
RULE = (
    "execution = (configuration, schedule); configuration = subscribers 1..3 x messages 0..5 x capacity 1..4 x "
    "lazy/eager x driver mask (>= 1 driver in lazy mode) x {plain values, futures completed by a concurrent "
    "worker} x {add_sender iterator, send() from a thread with explicit numbers permuted within the capacity "
    "bound} x {single mailbox, divide_outputs over 2-3 mailboxes}; schedule = systematic (all deviations from "
    "the non-preemptive default at <= D decisions), seeded random, PCT; distinct = distinct (configuration, "
    "interleaving signature) pairs; non-trivial = >= 1 message and >= 2 controlled threads"
)
ASSUMPTIONS = [
    "the cooperative stand-ins reproduce CPython's RLock / Condition.wait_for / Thread semantics (no spurious "
    "wake-ups injected); pre-emption happens at synchronisation operations only, which is sufficient because "
    "all shared mailbox state is accessed under the mailbox lock",
    "termination is decided as 'no deadlock and virtual clock == 0 on every explored schedule', nothing more",
]
REQUIRED = {"scheduled_runs": 3000, "distinct_interleavings": 1000, "scheduling_points": 50000,
            "systematic_runs": 500, "divide_outputs_runs": 200, "future_runs": 200, "explicit_number_runs": 200,
            "real_thread_runs": 50}
UNIT_TIMEOUT = 1500
VTIMEOUT = 10.0


class HeapShim:
    """heapq stand-in that records the largest size each mailbox list reaches."""

    def __init__(self):
        self.maxlen = {}

    def heappush(self, lst, item):
        _heapq.heappush(lst, item)
        k = id(lst)
        if len(lst) > self.maxlen.get(k, 0):
            self.maxlen[k] = len(lst)

    def heappop(self, lst):
        return _heapq.heappop(lst)


class Patched:
    """Context manager: strax.mailbox runs on the cooperative stand-ins."""

    def __init__(self, sched):
        self.sched = sched
        self.heap = HeapShim()

    def __enter__(self):
        self.saved = (smb.threading, smb.Future, smb.TimeoutError, smb.heapq)
        coop.activate(self.sched)
        smb.threading = coop.ThreadingShim
        smb.Future = coop.Future
        smb.TimeoutError = coop.FutureTimeout
        smb.heapq = self.heap
        return self

    def __exit__(self, *a):
        smb.threading, smb.Future, smb.TimeoutError, smb.heapq = self.saved


def capacity_ok(order, capacity):
    """Explicit numbering precondition: the sender never finds the mailbox full of undeliverable messages."""
    sent = set()
    for k in order:
        mex = 0
        while mex in sent:
            mex += 1
        stuck = len([x for x in sent if x > mex])
        # in the worst case everything deliverable has been read; the stuck ones occupy the buffer
        if stuck >= capacity:
            return False
        sent.add(k)
    return True


def run_config(cfg, chooser, max_steps=20000):
    """One execution of configuration cfg under chooser. Returns outcome dict."""
    sched = coop.Sched(chooser=chooser, max_steps=max_steps)
    out = {"errors": [], "received": {}, "finished": {}, "deadlock": None, "clock": 0.0}
    with Patched(sched) as P:
        sched.register_main()
        n = cfg["n_msg"]
        values = [f"m{i}" for i in range(n)]
        futures = {}
        lazy = cfg["lazy"]
        cap = cfg["capacity"]
        nd = cfg.get("divide", 0)
        shim_threads = []
        try:
            if nd:
                names = [f"o{j}" for j in range(nd)]
                boxes = {d: strax.Mailbox(name=d, timeout=VTIMEOUT, lazy=lazy, max_messages=cap) for d in names}
                src = strax.Mailbox(name="src", timeout=VTIMEOUT, lazy=lazy, max_messages=cap)
                src.add_sender(iter([{d: f"{v}@{d}" for d in names} for v in values]))
                flow = tuple(cfg.get("flow_freely", ()))
                src.add_reader(lambda source: smb.divide_outputs(source, boxes, lazy=lazy, flow_freely=flow, outputs=names))
                readers = []
                for d in names:
                    for r in range(cfg["n_sub"]):
                        key = f"{d}/{r}"
                        out["received"][key] = []
                        out["finished"][key] = False

                        def f(source, _k=key):
                            for x in source:
                                out["received"][_k].append(x)
                            out["finished"][_k] = True

                        boxes[d].add_reader(f, can_drive=cfg["drivers"][r] or d in flow, name=f"read_{key}")
                all_boxes = [src] + list(boxes.values())
                for b in all_boxes:
                    b.start()
                for b in all_boxes:
                    b.cleanup()
                expected = {f"{d}/{r}": [f"{v}@{d}" for v in values] for d in names for r in range(cfg["n_sub"])}
            else:
                mb = strax.Mailbox(name="mb", timeout=VTIMEOUT, lazy=lazy, max_messages=cap)
                msgs = []
                for i, v in enumerate(values):
                    if cfg.get("futures") and i % 2 == cfg.get("future_parity", 0):
                        fu = coop.Future()
                        futures[i] = fu
                        msgs.append(fu)
                    else:
                        msgs.append(v)
                for r in range(cfg["n_sub"]):
                    out["received"][r] = []
                    out["finished"][r] = False

                    def f(source, _r=r):
                        for x in source:
                            out["received"][_r].append(x)
                        out["finished"][_r] = True

                    mb.add_reader(f, can_drive=cfg["drivers"][r], name=f"reader{r}")
                extra = []
                if cfg["mode"] == "iter":
                    mb.add_sender(iter(msgs), name="sender")
                else:
                    order = cfg["order"]

                    def send_all():
                        try:
                            for k in order:
                                mb.send(msgs[k], msg_number=k)
                            mb.close()
                        except coop.Abort:
                            raise
                        except Exception as e:  # noqa: BLE001
                            out["errors"].append(f"sender: {type(e).__name__}: {e}")
                            mb.kill(reason=(type(e), e, None))

                    t = coop.Thread(target=send_all, name="sender")
                    extra.append(t)
                if futures:
                    forder = cfg.get("future_order", sorted(futures))

                    def complete():
                        for k in forder:
                            futures[k].set_result(values[k])

                    extra.append(coop.Thread(target=complete, name="worker"))
                mb.start()
                for t in extra:
                    t.start()
                for t in extra:
                    t.join(VTIMEOUT * 3)
                mb.cleanup()
                shim_threads = mb._threads + extra
                expected = {r: list(values) for r in range(cfg["n_sub"])}
                out["max_held"] = P.heap.maxlen.get(id(mb._mailbox), 0)
            out["expected"] = expected
        except coop.Deadlock as e:
            out["deadlock"] = str(e)
        except RuntimeError as e:
            out["errors"].append(f"main: {type(e).__name__}: {e}")
        except Exception as e:  # noqa: BLE001
            out["errors"].append(f"main: {type(e).__name__}: {e}")
        for t in shim_threads:
            if getattr(t, "exc", None) is not None:
                out["errors"].append(f"{t.name}: {type(t.exc).__name__}: {t.exc}")
        if nd and not out["deadlock"]:
            for b in all_boxes:
                for t in b._threads:
                    if getattr(t, "exc", None) is not None:
                        out["errors"].append(f"{t.name}: {type(t.exc).__name__}: {t.exc}")
                if not lazy:
                    out.setdefault("max_held_all", {})[b.name] = P.heap.maxlen.get(id(b._mailbox), 0)
        out["clock"] = sched.clock
        out["steps"] = sched.steps
        out["sig"] = sched.signature()
        out["choices"] = list(sched.choices)
        out["unfinished"] = sched.all_done() if not sched.dead else []
        out["timeouts_fired"] = sched.timeouts_fired
    return out, sched


def judge(cfg, out):
    """Oracle. Returns list of (kind, text)."""
    v = []
    if out["deadlock"]:
        v.append(("deadlock", f"deadlock: {out['deadlock']}"))
        return v
    if out["clock"] > 0 or out["timeouts_fired"]:
        v.append(("virtual-timeout", f"progress needed a timeout (virtual clock {out['clock']}, lost wake-up?); errors {out['errors'][:2]}"))
    exp = out.get("expected", {})
    for k, want in exp.items():
        got = out["received"].get(k)
        if got != want:
            v.append(("delivery", f"subscriber {k} received {got}, expected {want}"))
        elif not out["finished"].get(k):
            v.append(("termination", f"subscriber {k} got all messages but did not terminate"))
    if out["errors"] and not v:
        v.append(("exception", f"thread raised: {out['errors'][:2]}"))
    if out["unfinished"]:
        v.append(("threads-left", f"threads not finished: {out['unfinished']}"))
    if not cfg["lazy"]:
        held = [out.get("max_held", 0)] + list(out.get("max_held_all", {}).values())
        if max(held) > cfg["capacity"]:
            v.append(("capacity", f"mailbox held {max(held)} undelivered messages, capacity {cfg['capacity']}"))
    return v


def all_configs(tier):
    """Enumerate small configurations (deterministic order)."""
    cfgs = []
    q = tier == "quick"
    for n_sub in (1, 2, 3):
        for n_msg in range(0, 6):
            for cap in (1, 2, 3, 4):
                for lazy in (False, True):
                    masks = [m for m in itertools.product((True, False), repeat=n_sub) if any(m)] if lazy else [tuple([True] * n_sub)]
                    for mask in masks:
                        cfgs.append({"n_sub": n_sub, "n_msg": n_msg, "capacity": cap, "lazy": lazy,
                                     "drivers": list(mask), "mode": "iter"})
                        if n_msg >= 2:
                            cfgs.append({"n_sub": n_sub, "n_msg": n_msg, "capacity": cap, "lazy": lazy,
                                         "drivers": list(mask), "mode": "iter", "futures": True,
                                         "future_parity": n_msg % 2, "future_order": None})
    # explicit numbering: permutations within the capacity bound
    for n_sub in (1, 2):
        for n_msg in (2, 3, 4):
            for cap in (1, 2, 3, 4):
                for lazy in (False, True):
                    for order in itertools.permutations(range(n_msg)):
                        if list(order) == sorted(order):
                            continue
                        if not lazy and not capacity_ok(order, cap):
                            continue
                        cfgs.append({"n_sub": n_sub, "n_msg": n_msg, "capacity": cap, "lazy": lazy,
                                     "drivers": [True] * n_sub, "mode": "send", "order": list(order)})
    for nd in (2, 3):
        for n_sub in (1, 2):
            for n_msg in (0, 1, 3):
                for cap in (1, 2):
                    for lazy in (False, True):
                        cfgs.append({"n_sub": n_sub, "n_msg": n_msg, "capacity": cap, "lazy": lazy,
                                     "drivers": [True] * n_sub, "mode": "iter", "divide": nd})
                        if lazy and nd == 3:
                            cfgs.append({"n_sub": n_sub, "n_msg": n_msg, "capacity": cap, "lazy": lazy,
                                         "drivers": [True] + [False] * (n_sub - 1), "mode": "iter", "divide": nd,
                                         "flow_freely": ["o2"]})
    for c in cfgs:
        if c.get("futures"):
            fut_idx = [i for i in range(c["n_msg"]) if i % 2 == c["future_parity"]]
            c["future_order"] = list(reversed(fut_idx))
    return cfgs


def units(tier, seed):
    q = tier == "quick"
    cfgs = all_configs(tier)
    n = 32 if q else 64
    us = [{"name": f"sched-{k}", "fam": "sched", "shard": k, "nshards": n, "seed": seed, "tier": tier} for k in range(n)]
    us.append({"name": "realthreads", "fam": "real", "seed": seed, "n": 80 if q else 600})
    return us


def run_unit(u):
    res = {"evaluations": 0, "hashes": [], "counters": {}, "samples": [], "violations": [], "inconclusive": []}
    cnt = res["counters"]

    def add(cfg, kind, text, out):
        if len(res["violations"]) < 15:
            res["violations"].append({"sig": {"kind": kind, "lazy": cfg["lazy"], "mode": cfg["mode"], "divide": cfg.get("divide", 0),
                                              "futures": bool(cfg.get("futures"))},
                                      "what": f"{kind}: {text}"[:600],
                                      "case": {"cfg": cfg, "choices": out.get("choices", [])[:3000]}})

    if u["fam"] == "real":
        return run_real(u, res)
    q = u["tier"] == "quick"
    cfgs = all_configs(u["tier"])
    sigs = set()
    for ci, cfg in enumerate(cfgs):
        if ci % u["nshards"] != u["shard"]:
            continue

        def one(chooser, kind):
            out, sched = run_config(cfg, chooser)
            res["evaluations"] += 1
            cnt["scheduled_runs"] = cnt.get("scheduled_runs", 0) + 1
            cnt["scheduling_points"] = cnt.get("scheduling_points", 0) + out["steps"]
            cnt[kind] = cnt.get(kind, 0) + 1
            if cfg.get("divide"):
                cnt["divide_outputs_runs"] = cnt.get("divide_outputs_runs", 0) + 1
            if cfg.get("futures"):
                cnt["future_runs"] = cnt.get("future_runs", 0) + 1
            if cfg["mode"] == "send":
                cnt["explicit_number_runs"] = cnt.get("explicit_number_runs", 0) + 1
            key = common.chash([ci, out["sig"]])
            if key not in sigs:
                sigs.add(key)
                if cfg["n_msg"] >= 1:
                    res["hashes"].append(key)
            for kind_, text in judge(cfg, out):
                add(cfg, kind_, text, out)
            return out

        # systematic: default schedule + all single (thorough: double) deviations, within budget
        small = cfg["n_sub"] <= 2 and cfg["n_msg"] <= 3 and not cfg.get("divide")

        def run_plan(plan):
            ch = coop.PlanChooser(plan)
            one(ch, "systematic_runs")
            return ch

        if small:
            coop.explore_plans(run_plan, max_deviations=1 if q else 2, budget=60 if q else 1500)
        else:
            run_plan({})
        nrand = 6 if q else 60
        for k in range(nrand):
            one(coop.RandomChooser(u["seed"] * 1000003 + ci * 101 + k), "random_runs")
        for k in range(3 if q else 30):
            one(coop.PCTChooser(u["seed"] * 7919 + ci * 31 + k, depth=3), "pct_runs")
        if not res["samples"] and cfg["n_msg"] >= 2:
            res["samples"].append({"cfg": cfg, "example_interleaving_signature": next(iter(sigs)) if sigs else None})
    cnt["distinct_interleavings"] = len(sigs)
    return res


def run_real(u, res):
    """Real threads, 1 us switch interval: decides value-level outcomes only (timeouts are inconclusive)."""
    rng = random.Random(u["seed"] + 99)
    cfgs = [c for c in all_configs("quick") if not c.get("futures") and c["n_msg"] >= 2]
    old = sys.getswitchinterval()
    sys.setswitchinterval(1e-6)
    cnt = res["counters"]
    try:
        for i in range(u["n"]):
            cfg = rng.choice(cfgs)
            if cfg.get("divide"):
                continue
            mb = strax.Mailbox(name="mb", timeout=20, lazy=cfg["lazy"], max_messages=cfg["capacity"])
            values = [f"m{k}" for k in range(cfg["n_msg"])]
            got = {r: [] for r in range(cfg["n_sub"])}

            def mk(r):
                def f(source):
                    for x in source:
                        got[r].append(x)
                return f

            for r in range(cfg["n_sub"]):
                mb.add_reader(mk(r), can_drive=cfg["drivers"][r])
            th = None
            if cfg["mode"] == "iter":
                mb.add_sender(iter(values))
            else:
                def send_all():
                    for k in cfg["order"]:
                        mb.send(values[k], msg_number=k)
                    mb.close()
                th = _real_threading.Thread(target=send_all)
            mb.start()
            if th:
                th.start()
                th.join(30)
            try:
                mb.cleanup()
            except RuntimeError as e:
                res["inconclusive"].append(f"real-thread run did not finish in time: {e}")
                continue
            res["evaluations"] += 1
            cnt["real_thread_runs"] = cnt.get("real_thread_runs", 0) + 1
            res["hashes"].append(common.chash(["real", i, cfg]))
            for r in range(cfg["n_sub"]):
                if got[r] != values:
                    if any("Timeout" in str(x) for x in got[r]):
                        continue
                    res["violations"].append({"sig": {"kind": "delivery", "real_threads": True, "lazy": cfg["lazy"], "mode": cfg["mode"]},
                                              "what": f"real threads: subscriber {r} received {got[r]}, expected {values}",
                                              "case": {"cfg": cfg, "real": True}})
    finally:
        sys.setswitchinterval(old)
    return res


def replay(case):
    cfg = case["cfg"]
    if case.get("real"):
        return []
    out, sched = run_config(cfg, coop.ReplayChooser(case.get("choices", [])))
    return [{"sig": {"kind": k}, "what": t, "case": case} for k, t in judge(cfg, out)]
