"""C11 Only what is missing is computed, and only what policy allows is saved.

Random plugin graphs x stored subsets x targets / save= / request modifiers /
forbid_creation_of x one or two storage frontends (readonly / take_only / exclude).
A small reference planner over the *declared* graph says which plugins must run,
which data types are loaded, which are saved, and whether an explicit error is due.
Observed: compute-call log per plugin (ran / did not run; inputs exactly once via
row-id conservation), chunk-file reads per data type (audit hook) = what was loaded,
directory listing before/after per frontend = what was saved, the exception type, the
ProcessorComponents of an identical get_components call, and the rows returned.
"""
import os
import random

import numpy as np

from vf import common

common.setup_env()
strax = common.import_strax()
from vf.checks.meta import META  # noqa: E402
from vf.harness import gen, oracle, run as hrun, plugins as hp  # noqa: E402
from vf.mon import chunklaws as cl, fsaudit  # noqa: E402

PROPERTY = "C11"
LEVEL = "exploration"
TECHNIQUE = META["C11"]["technique"]
RULE = (
    "case = (plugin graph with per-output save policies, stored subset, targets (1 or 2 same-kind), save= set, "
    "modifier in {none, time_range, selection, keep_columns, fuzzy_for, allow_incomplete}, forbid_creation_of, "
    "frontends with readonly/take_only/exclude, processor); seeded random incl. a stratum 'multi-output plugin, "
    "one output stored, sibling needed'; distinct by hash; non-trivial = at least one plugin had to run or one "
    "type had to be loaded and the planner's expectation was compared with all observers"
)
ASSUMPTIONS = [
    "reference planner in vf/checks/c11.py is the statement's reading of 'needed', 'stored', 'save policy'",
    "a data type counts as loaded when one of its chunk files is opened for reading (empty chunks have no file)",
    "multi-target requests under forbid_creation_of='*' may be refused (the merged result is a created type)",
]
REQUIRED = {"requests": 300, "plugins_ran_checked": 300, "loads_checked": 100, "saves_checked": 100,
            "expected_errors": 30, "components_checked": 100, "multi_sibling_cases": 10, "two_frontend_cases": 50,
            "multi_partial_cases": 30, "forbid_as_string_cases": 15, "pre_call_cases": 30, "inlined_saver_frontends": 6}
UNIT_TIMEOUT = 1200
ORDER = {"NEVER": 0, "EXPLICIT": 1, "TARGET": 2, "ALWAYS": 3}


def policy_of(spec):
    pol = {s["name"]: s.get("save_when", "ALWAYS") for s in spec["sources"]}
    for p in spec["plugins"]:
        sw = p.get("save_when", "ALWAYS")
        for d in hp.provides_of(p):
            pol[d] = sw[d] if isinstance(sw, dict) else sw
    return pol


def provider_of(spec):
    prov = {}
    for s in spec["sources"]:
        prov[s["name"]] = {"name": s["name"], "deps": [], "provides": [s["name"]]}
    for p in spec["plugins"]:
        rec = {"name": p["name"], "deps": list(p["deps"]), "provides": hp.provides_of(p)}
        for d in rec["provides"]:
            prov[d] = rec
    return prov


def takes(fe, dt):
    return not (dt in fe.get("exclude", ()) or (fe.get("take_only") and dt not in fe["take_only"]))


def plan(case):
    """Reference planner. Returns dict(runs, loads, saves {frontend_i: set}, error)."""
    spec = case["spec"]
    pol = policy_of(spec)
    prov = provider_of(spec)
    fes = case["frontends"]
    stored = set()
    for i, fe in enumerate(fes):
        for dt in fe["stored"]:
            if takes(fe, dt):
                stored.add(dt)
    targets = case["targets"]
    save = set(case["save"])
    mod = case["modifier"]
    forbid = set(case["forbid"])
    runs, loads, seen = set(), set(), set()
    error = None
    computed_types = []

    def visit(t):
        nonlocal error
        if t in seen or error:
            return
        seen.add(t)
        if t in stored:
            loads.add(t)
            return
        if mod in ("time_range", "time_within") and ORDER[pol[t]] > ORDER["EXPLICIT"]:
            error = "DataNotAvailable"
            return
        if "*" in forbid or t in forbid:
            error = "DataNotAvailable"
            return
        p = prov[t]
        runs.add(p["name"])
        computed_types.append(t)
        for d in p["deps"]:
            visit(d)
            if error:
                return
        # saving rules are evaluated after the dependencies were planned
        if pol[t] == "NEVER" and t in save:
            error = "ValueError"
            return
        if not allowed(t) and len(p["provides"]) == 1:
            return
        if mod != "none":
            return
        for d in p["provides"]:
            if d not in stored and pol[d] == "NEVER" and d in save:
                error = "ValueError"
                return

    def allowed(d):
        if pol[d] == "NEVER":
            return False
        if pol[d] == "TARGET":
            return d in targets
        if pol[d] == "EXPLICIT":
            return d in save
        return True

    for t in targets:
        visit(t)
    saves = {i: set() for i in range(len(fes))}
    if error is None and mod == "none":
        for t in computed_types:
            p = prov[t]
            # strax looks at the outputs of a plugin when it visits one of its *needed* outputs
            cand = set(p["provides"]) if (allowed(t) or len(p["provides"]) > 1) else set()
            for d in cand:
                if d in stored or not allowed(d):
                    continue
                for i, fe in enumerate(fes):
                    if not fe.get("readonly") and takes(fe, d):
                        saves[i].add(d)
    return {"runs": runs, "loads": loads, "saves": saves, "error": error, "stored": stored}


def listing_types(d):
    out = set()
    if not os.path.isdir(d):
        return out
    for name in os.listdir(d):
        parts = name.split("-")
        if len(parts) >= 3 and not name.endswith("_temp"):
            out.add(parts[1])
    return out


def gen_case(seed, idx):
    rng = gen.rng_for(seed, "c11", idx)
    srcs, t0, t1 = gen.gen_sources(rng, 1, nmax=6)
    for s in srcs:
        s["cuts"] = gen.gen_cuts(rng, s["rows"], t0, t1, 1, max_inner=3)
    stratum = rng.choice(["free", "free", "free", "multi_sibling", "multi_sibling", "multi_partial"])
    if stratum == "multi_partial":
        # multi-output plugin with per-output policies: the needed output is EXPLICIT / NEVER (not saved by the
        # request), its sibling ALWAYS / TARGET and usually not stored yet; a data type whose name contains the
        # name of another one ("mab" / "ma") for forbid_creation_of given as a plain string
        plugins = [{"name": "m", "type": "multi", "deps": ["ev"],
                    "save_when": {"ma": rng.choice(["EXPLICIT", "NEVER", "EXPLICIT"]), "mb": rng.choice(["ALWAYS", "ALWAYS", "TARGET"])}},
                   {"name": "mab", "type": "row", "deps": ["ma"], "save_when": rng.choice(["ALWAYS", "TARGET", "EXPLICIT"])},
                   {"name": "top", "type": "row", "deps": ["mb"], "save_when": "TARGET"}]
    elif stratum == "multi_sibling":
        plugins = [{"name": "m", "type": "multi", "deps": ["ev"],
                    "save_when": {"ma": rng.choice(["ALWAYS", "TARGET", "EXPLICIT"]), "mb": rng.choice(["ALWAYS", "TARGET"])}},
                   {"name": "top", "type": rng.choice(["loop", "loop", "filter"]), "deps": ["ma", "mb"],
                    "save_when": rng.choice(["ALWAYS", "TARGET", "NEVER"])}]
        if plugins[1]["type"] == "filter":
            plugins[1]["deps"] = [rng.choice(["ma", "mb"])]
            plugins.append({"name": "top2", "type": "row", "deps": ["mb"], "save_when": "TARGET"})
    else:
        plugins = gen.gen_graph(rng, srcs, 1, types=["row", "row", "filter", "multi", "loop", "down", "window"])
    for p in plugins:
        p.pop("chunk_target_size_mb", None)
        p["rechunk_on_save"] = False
    spec = {"sources": srcs, "plugins": plugins}
    out = oracle.whole_run(spec)
    gen.fix_group_windows(spec, out)
    types = gen.all_types(spec)
    pol = policy_of(spec)
    kinds = hp.kinds_of(spec)
    fields = hp.fields_of(spec)
    storable = [t for t in types if pol[t] != "NEVER"]
    nfe = rng.choice([1, 1, 2])
    fes = []
    for i in range(nfe):
        fe = {"stored": sorted(rng.sample(storable, rng.randint(0, len(storable)))) if rng.random() < 0.8 else []}
        if nfe == 2:
            r = rng.random()
            if r < 0.3:
                fe["readonly"] = True
            elif r < 0.5:
                fe["take_only"] = sorted(rng.sample(types, rng.randint(1, len(types))))
            elif r < 0.7:
                fe["exclude"] = sorted(rng.sample(types, rng.randint(1, max(1, len(types) // 2))))
            elif r < 0.85:
                # a whitelist narrowed by a blacklist: a type named in both is NOT taken
                fe["take_only"] = sorted(rng.sample(types, rng.randint(1, len(types))))
                fe["exclude"] = sorted(rng.sample(fe["take_only"], rng.randint(1, len(fe["take_only"]))))
        fes.append(fe)
    if stratum == "multi_sibling":
        fes[0]["stored"] = sorted(set(fes[0]["stored"]) - {"ma"} | {"mb"})
    if stratum == "multi_partial":
        for fe in fes:
            st_ = set(fe["stored"]) - {"ma"}
            if rng.random() < 0.8:
                st_ -= {"mb", "top"}
            if rng.random() < 0.7:
                st_ |= {srcs[0]["name"]}
            fe["stored"] = sorted(st_)
    tgt = rng.choice(types if stratum == "free" else ["ma", "ma", "mab", "top"] if stratum == "multi_partial"
                     else ["top", "top", "ma", "top2"] if "top2" in types else ["top", "ma"])
    targets = [tgt]
    if rng.random() < 0.2:
        same = [t for t in types if t != tgt and kinds[t] == kinds[tgt] and fields[t] != fields[tgt]
                and len(out[t]) == len(out[tgt])]
        if same:
            targets.append(rng.choice(same))
    save = sorted(rng.sample(types, rng.randint(0, 2))) if rng.random() < 0.5 else []
    # time_within: the same time restriction, spelled through a row that spans it
    modifier = rng.choice(["none", "none", "none", "time_range", "time_within", "selection", "keep_columns", "fuzzy_for", "allow_incomplete"])
    forbid = rng.choice([[], [], [], ["*"], [rng.choice(types)]])
    if stratum == "multi_partial":
        modifier = rng.choice(["none", "time_range", "time_within", "selection", "keep_columns", "fuzzy_for", "allow_incomplete"])
        forbid = rng.choice([[], [], ["mab"], ["mab"], ["top"], ["mb"]])
    # forbid_creation_of may be given as a tuple, a list or (one type) a plain string
    form = rng.choice(["tuple", "tuple", "list", "str"])
    if form == "str" and len(forbid) != 1:
        form = "tuple"
    # history on ONE context object: a request with a per-call context option first, then the plain request
    pre_call = None
    if modifier == "none" and not forbid and rng.random() < 0.4:
        pre_call = rng.choice(["allow_incomplete", "fuzzy_for", "forbid_all"])
    return {"spec": spec, "frontends": fes, "targets": targets, "save": save, "modifier": modifier, "forbid": forbid,
            "forbid_form": form, "pre_call": pre_call,
            "processor": rng.choice(["single_thread", "threaded_mailbox"]), "lazy": rng.random() < 0.5,
            "t0": t0, "t1": t1, "stratum": stratum}


def make_frontends(case, dirs):
    fes = []
    for fe, d in zip(case["frontends"], dirs):
        fes.append(strax.DataDirectory(d, readonly=bool(fe.get("readonly")), take_only=tuple(fe.get("take_only", ())),
                                       exclude=tuple(fe.get("exclude", ()))))
    return fes


def run_case(case):
    viol, cnt = [], {}
    spec = case["spec"]
    out = oracle.whole_run(spec)
    ref = plan(case)
    pol = policy_of(spec)
    two = len(case["targets"]) > 1

    def add(kind, what, exc=None, **extra):
        sig = {"kind": kind, "modifier": case["modifier"], "multi_target": two, "stratum": case["stratum"]}
        sig.update(extra)
        if exc is not None:
            sig.update(common.exc_sig(exc))
        viol.append({"sig": sig, "what": f"{kind}: {what}"[:700], "case": case})

    root = hrun.mktemp("c11-")
    dirs = [os.path.join(root, f"fe{i}") for i in range(len(case["frontends"]))]
    try:
        # ---- build the stored subset: make everything in a scratch frontend, copy the wanted directories
        scratch = os.path.join(root, "scratch")
        cfg0 = {"processor": "single_thread", "max_messages": 50, "timeout": 60}
        st0 = hrun.make_context(spec, scratch, cfg0)
        want_any = set().union(*[set(fe["stored"]) for fe in case["frontends"]]) if case["frontends"] else set()
        for dt in sorted(want_any):
            with common.quiet():
                st0.make("0", dt, save=(dt,), progress_bar=False)
        import shutil

        for fe, d in zip(case["frontends"], dirs):
            os.makedirs(d, exist_ok=True)
            for name in os.listdir(scratch) if os.path.isdir(scratch) else []:
                if name.split("-")[1] in fe["stored"]:
                    shutil.copytree(os.path.join(scratch, name), os.path.join(d, name))
        shutil.rmtree(scratch, ignore_errors=True)
        before = [listing_types(d) for d in dirs]

        cfg = {"processor": case["processor"], "allow_lazy": case["lazy"], "max_messages": 50, "timeout": 60}
        ctx_opts = {}
        if case["forbid"]:
            ff = case.get("forbid_form", "tuple")
            ctx_opts["forbid_creation_of"] = (case["forbid"][0] if ff == "str" else list(case["forbid"]) if ff == "list"
                                              else tuple(case["forbid"]))
        if case["modifier"] == "fuzzy_for":
            ctx_opts["fuzzy_for"] = (case["spec"]["sources"][0]["name"],)
        if case["modifier"] == "allow_incomplete":
            ctx_opts["allow_incomplete"] = True
        kw = {}
        if case["modifier"] == "time_range":
            kw["time_range"] = (case["t0"], case["t1"])
        elif case["modifier"] == "time_within":
            kw["time_within"] = np.array([(case["t0"], case["t1"])], dtype=strax.time_fields)[0]
        elif case["modifier"] == "selection":
            kw["selection"] = "time >= 0"
        elif case["modifier"] == "keep_columns":
            kw["keep_columns"] = ("time", "endtime")
        tg = tuple(case["targets"]) if two else case["targets"][0]

        def ctx():
            return hrun.make_context(spec, make_frontends(case, dirs), cfg, **ctx_opts)

        # ---- components of an identical request (single target only: multi-target needs get_iter's temp plugin)
        if not two:
            try:
                comp = ctx().get_components("0", targets=(tg,), save=tuple(case["save"]),
                                            time_range=kw.get("time_range") or ((case["t0"], case["t1"]) if "time_within" in kw else None),
                                            selection=kw.get("selection"),
                                            keep_columns=kw.get("keep_columns"))
                cexc = None
            except Exception as e:  # noqa: BLE001
                comp, cexc = None, e
            cnt["components_checked"] = 1
            if comp is not None:
                if set(comp.plugins) & set(comp.loaders):
                    add("components", f"plugins and loaders overlap: {set(comp.plugins) & set(comp.loaders)}")
                got_runs = {pp.__class__.__name__.split("_", 1)[1] for pp in comp.plugins.values()}
                if ref["error"] is None:
                    if got_runs != ref["runs"]:
                        add("components", f"plugins to run {sorted(got_runs)} != expected {sorted(ref['runs'])}")
                    if set(comp.loaders) != ref["loads"]:
                        add("components", f"loaders {sorted(comp.loaders)} != expected {sorted(ref['loads'])}")
                    got_sv = {k for k, v in comp.savers.items() if v}
                    want_sv = set().union(*ref["saves"].values()) if ref["saves"] else set()
                    if got_sv != want_sv:
                        add("components", f"savers {sorted(got_sv)} != expected {sorted(want_sv)}", policy=[pol[x] for x in sorted(got_sv ^ want_sv)])
                else:
                    add("components", f"get_components succeeded but {ref['error']} was expected")
                # close the savers get_components created (they made temp dirs)
                for svs in comp.savers.values():
                    for s in svs:
                        try:
                            s.is_forked = True
                            s.close()
                        except Exception:  # noqa: BLE001
                            pass
                for d in dirs:
                    for name in os.listdir(d):
                        if name.endswith("_temp") or name.split("-")[1] not in before[dirs.index(d)]:
                            shutil.rmtree(os.path.join(d, name), ignore_errors=True)
            elif ref["error"] is None:
                add("components", f"get_components raised {cexc!r} but no error was expected", cexc)

        # ---- the real request
        the_ctx = ctx()
        if case.get("pre_call"):
            # an earlier request on the same context with a per-call option (which must not stick to the context);
            # by the rules it saves nothing, so the stored subset is still the one the planner was given
            pre_kw = {"allow_incomplete": dict(allow_incomplete=True), "fuzzy_for": dict(fuzzy_for=(case["spec"]["sources"][0]["name"],)),
                      "forbid_all": dict(forbid_creation_of=("*",))}[case["pre_call"]]
            try:
                with common.quiet():
                    the_ctx.get_array("0", tg, progress_bar=False, **pre_kw)
            except Exception:  # noqa: BLE001
                pass
            cnt["pre_call_cases"] = 1
            mid = [listing_types(d) for d in dirs]
            if mid != before:
                add("saves", f"the preliminary request with per-call option {case['pre_call']} saved {[sorted(a - b) for a, b in zip(mid, before)]}",
                    pre_call=case["pre_call"])
                before = mid
        hp.reset_events()
        cl.reset()
        fsaudit.arm(root)
        exc = None
        try:
            with common.quiet():
                got = the_ctx.get_array("0", tg, save=tuple(case["save"]), progress_bar=False, **kw)
        except Exception as e:  # noqa: BLE001
            exc = e
        fsev, _ = fsaudit.disarm()
        cnt["requests"] = 1
        if exc is not None and "Timeout" in type(exc).__name__:
            return viol, cnt, False, [f"timeout: {exc}"]
        after = [listing_types(d) for d in dirs]
        evs = hp.events()
        ran = {e["p"] for e in evs if "call" in e or e.get("src")}
        if ref["error"] is not None:
            cnt["expected_errors"] = 1
            if exc is None:
                add("no-error", f"{ref['error']} expected (forbid={case['forbid']}, modifier={case['modifier']}) but the request returned")
            elif type(exc).__name__ != ref["error"] and not (ref["error"] == "DataNotAvailable" and isinstance(exc, strax.DataNotAvailable)):
                add("wrong-error", f"expected {ref['error']}, got {exc!r}", exc)
            if ran:
                add("computed-despite-error", f"plugins {sorted(ran)} ran although the request had to be refused")
            for i in range(len(dirs)):
                if after[i] != before[i]:
                    add("saved-despite-error", f"frontend {i}: new data {sorted(after[i] - before[i])}")
        else:
            if exc is not None and two and "*" in case["forbid"] and isinstance(exc, strax.DataNotAvailable):
                # the merged result of a multi-target request is itself a (temporary) data type that
                # forbid_creation_of='*' refuses to create: accepted as an explicit error
                cnt["expected_errors"] = 1
            elif exc is not None:
                add("exception", f"request failed: {exc!r}", exc)
            else:
                cnt["plugins_ran_checked"] = 1
                if ran != ref["runs"]:
                    add("ran", f"plugins that ran {sorted(ran)} != expected {sorted(ref['runs'])} (stored {sorted(ref['stored'])})")
                # loads
                read_types = set()
                for e in fsev:
                    if e["op"] == "open:r" and not e["path"].endswith(".json"):
                        parts = os.path.basename(os.path.dirname(e["path"])).split("-")
                        if len(parts) >= 3:
                            read_types.add(parts[1])
                cnt["loads_checked"] = 1
                must_read = {t for t in ref["loads"] if len(out[t])}
                if not (must_read <= read_types <= ref["loads"]):
                    add("loads", f"chunk files read for {sorted(read_types)}; expected loads {sorted(ref['loads'])} (non-empty: {sorted(must_read)})")
                # saves
                cnt["saves_checked"] = 1
                for i in range(len(dirs)):
                    new = after[i] - before[i]
                    if new != ref["saves"][i]:
                        miss = ref["saves"][i] - new
                        extra = new - ref["saves"][i]
                        add("saves", f"frontend {i} ({case['frontends'][i]}): saved {sorted(new)}, expected {sorted(ref['saves'][i])}",
                            missing_policy=sorted({pol[x] for x in miss}), extra_policy=sorted({pol[x] for x in extra}))
                # rows
                if not two and case["modifier"] in ("none", "time_range", "time_within", "selection", "fuzzy_for", "allow_incomplete"):
                    if not oracle.rows_equal(got, out[tg]):
                        add("rows", f"result differs from the whole-run oracle: {got.tolist()} vs {out[tg].tolist()}")
                # exactly-once delivery to every consumer that ran
                F = hp.fields_of(spec)
                for p in spec["plugins"]:
                    if p["name"] in ran and p["type"] not in ("window", "group", "mwindow"):
                        for d in p["deps"]:
                            seen = [v for e in evs if e["p"] == p["name"] and "call" in e for v in e["rows"][d]]
                            if seen != [int(x) for x in out[d][F[d]]]:
                                add("delivery", f"{p['name']} received {d} rows {seen}, expected {out[d][F[d]].tolist()}")
        log, _ = cl.snapshot()
        for entry in log[:2]:
            add("law", f"{entry['what']} :: {entry['detail']}", op=entry["op"])
    finally:
        hrun.rm(root)
    if case["stratum"] == "multi_sibling":
        cnt["multi_sibling_cases"] = 1
    if case["stratum"] == "multi_partial":
        cnt["multi_partial_cases"] = 1
    if case.get("forbid_form") == "str":
        cnt["forbid_as_string_cases"] = 1
    if len(case["frontends"]) == 2:
        cnt["two_frontend_cases"] = 1
    nontrivial = bool(ref["runs"] or ref["loads"])
    return viol, cnt, nontrivial, []


def run_mp_frontends(nfe):
    """Multiprocessing with inlined savers and several writable frontends: every ALWAYS-saved type of the inlined
    chain must end up in EVERY frontend that takes it, complete and loadable, no temporary directories left."""
    import multiprocessing as _mp

    from vf.harness import mp_plugins as mp

    if _mp.get_start_method(allow_none=True) != "forkserver":
        _mp.set_start_method("forkserver", force=True)
        _mp.set_forkserver_preload(["strax", "vf.harness.mp_plugins"])
    rows = ((0, 500, 1), (800, 1200, 2), (3000, 3500, 3), (3600, 4000, 4), (6000, 6400, 5), (9000, 9300, 6))
    cuts = (0, 2000, 5000, 10000)
    out = mp.whole_run(list(rows))
    root = hrun.mktemp("c11mp-")
    dirs = [os.path.join(root, f"fe{i}") for i in range(nfe)]
    viol = []
    try:
        st = strax.Context(storage=[strax.DataDirectory(d) for d in dirs], register=mp.ALL_INLINE,
                           config=dict(mp_rows=rows, mp_cuts=cuts), allow_multiprocess=True, allow_lazy=False,
                           max_messages=10, timeout=60, processors=["threaded_mailbox"])
        with common.quiet():
            st.make("0", "mptop", progress_bar=False, max_workers=2)
        for i, d in enumerate(dirs):
            left = [x for x in os.listdir(d) if x.endswith("_temp")] if os.path.isdir(d) else ["<frontend directory missing>"]
            if left:
                viol.append(("saves", f"frontend {i} of {nfe}: unfinished data left behind after a successful make: {left}"))
            one = strax.Context(storage=[strax.DataDirectory(d)], register=mp.ALL_INLINE, config=dict(mp_rows=rows, mp_cuts=cuts),
                                processors=["single_thread"], forbid_creation_of=("*",))
            for dt in ("mpsrc", "mprow", "mpma", "mpmb", "mptop"):
                if not one.is_stored("0", dt):
                    viol.append(("saves", f"frontend {i} of {nfe} (inlined savers): {dt} is saved by default but is not stored there"))
                    continue
                with common.quiet():
                    got = one.get_array("0", dt, progress_bar=False)
                if not oracle.rows_equal(got, out[dt]):
                    viol.append(("rows", f"frontend {i} of {nfe}: stored {dt} = {got.tolist()} != {out[dt].tolist()}"))
    except Exception as e:  # noqa: BLE001
        if "Timeout" not in type(e).__name__:
            viol.append(("exception", f"make with inlined savers and {nfe} frontends failed: {e!r}"))
    finally:
        hrun.rm(root)
    return viol


def units(tier, seed):
    q = tier == "quick"
    n = 16 if q else 64
    per = 40 if q else 300
    us = [{"name": f"plans-{k}", "seed": seed, "lo": k * per, "hi": (k + 1) * per} for k in range(n)]
    us.append({"name": "mpfrontends", "fam": "mpfe", "seed": seed, "reps": 1 if q else 4})
    return us


def run_unit(u):
    if u.get("fam") == "mpfe":
        res = {"evaluations": 0, "hashes": [], "counters": {}, "samples": [], "violations": [], "inconclusive": []}
        for rep in range(u["reps"]):
            for nfe in (1, 2, 3):
                viol = run_mp_frontends(nfe)
                res["evaluations"] += 1
                res["hashes"].append(common.chash(["mpfe", nfe, rep]))
                res["counters"]["inlined_saver_frontends"] = res["counters"].get("inlined_saver_frontends", 0) + nfe
                for kind, text in viol[:3]:
                    res["violations"].append({"sig": {"kind": kind, "modifier": "none", "multi_target": False, "stratum": "mp_inlined"},
                                              "what": f"{kind}: {text}"[:600], "case": {"mp_frontends": nfe}})
        res["samples"].append({"mp_inlined_savers": "1..3 writable frontends"})
        return res
    return _run_unit(u)


def _run_unit(u):
    cl.install(strax)
    fsaudit.install()
    res = {"evaluations": 0, "hashes": [], "counters": {}, "samples": [], "violations": [], "inconclusive": []}
    for idx in range(u["lo"], u["hi"]):
        case = gen_case(u["seed"], idx)
        try:
            viol, cnt, nt, inc = run_case(case)
        except Exception as e:  # noqa: BLE001
            import traceback

            res["inconclusive"].append(f"case {idx}: harness error " + "".join(traceback.format_exception(type(e), e, e.__traceback__))[-900:])
            continue
        res["evaluations"] += 1
        if nt:
            res["hashes"].append(common.chash(case))
        for k, v in cnt.items():
            res["counters"][k] = res["counters"].get(k, 0) + v
        if len(res["violations"]) < 20:
            res["violations"].extend(viol[:2])
        res["inconclusive"].extend(inc)
        if not res["samples"] and nt:
            res["samples"].append({"targets": case["targets"], "save": case["save"], "modifier": case["modifier"],
                                   "forbid": case["forbid"], "frontends": case["frontends"],
                                   "plugins": [(p["name"], p["type"], p["deps"], p.get("save_when")) for p in case["spec"]["plugins"]],
                                   "expected": {k: (sorted(v) if isinstance(v, set) else v) for k, v in plan(case).items() if k != "saves"}})
    return res


def replay(case):
    if "mp_frontends" in case:
        return [{"sig": {"kind": k}, "what": t, "case": case} for k, t in run_mp_frontends(case["mp_frontends"])]
    return _replay(case)


def _replay(case):
    cl.install(strax)
    fsaudit.install()
    viol, cnt, nt, inc = run_case(case)
    return viol


def _exercise():
    cl.install(strax)
    fsaudit.install()
    for i in range(30):
        try:
            run_case(gen_case(4242, i))
        except Exception:  # noqa: BLE001
            pass


def warm():
    hrun.warm_numba()
    _exercise()


def prefork():
    _exercise()
