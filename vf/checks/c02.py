"""C02 Stored data is reused only under an identical lineage (no stale reads).

Random histories of operations on two to four long-lived contexts sharing one storage
directory (contexts derived with new_context stay in use beside their parents; every
mutation is applied to a subset of the contexts, so their settings diverge): set_config
(tracked / untracked / shared / child option), re-registration of a same-named plugin
with another default, version, dependency or class name, new_context, make and
get_array. Every context has its own model of what it was told; after every step the
monitors compare each context with a brand-new context built from its model (empty
storage): keys and
arrays must agree (row values encode class, version and every tracked option); key
changes must hit exactly the changed plugin and its descendants; key tables must be
identical across processes / hash seeds / option insertion orders; fuzzy matching must
accept stored data exactly when the lineages differ only in the fuzzy parts, and must
never write.
"""
import json
import os
import random
import subprocess
import sys
import zlib

import numpy as np

from vf import common

common.setup_env()
strax = common.import_strax()
from vf.checks.meta import META  # noqa: E402
from vf.harness import run as hrun  # noqa: E402

PROPERTY = "C02"
LEVEL = "exploration"
TECHNIQUE = META["C02"]["technique"]
RULE = (
    "history = sequence of 3..12 steps over {set tracked / untracked / shared / child option, re-register a "
    "same-named plugin with a different default / version / dependency / class name, new_context, make, "
    "get_array from either of two contexts on one directory}, drawn from VERIF_SEED over a 5-plugin graph with a "
    "shared option and a child plugin; distinct by hash of the history; non-trivial = >= 1 mutating step and "
    ">= 1 data request after it"
)
ASSUMPTIONS = [
    "option values are JSON-serialisable (int, float, str, bool, None, nested tuples/lists, dicts with str keys): "
    "strax writes the lineage into JSON metadata; sets are reported informationally only",
    "the fresh-context oracle (same definitions, empty storage) defines the correct keys and rows",
]
REQUIRED = {"histories": 100, "data_requests_checked": 300, "key_tables_compared": 300, "sensitivity_checks": 200,
            "fuzzy_checks": 60, "cross_process_tables": 6, "stale_candidates": 50}
UNIT_TIMEOUT = 1500
DT = None
VALUES = [0, 1, 7, 2.5, -1.25, "abc", "", True, False, None, (1, 2), (1, (2, 3)), [4, 5], {"k": 1, "j": (2, 3)}, {"z": "y"}]


def dt():
    global DT
    if DT is None:
        DT = strax.time_fields + [(("value field v0", "v0"), np.int64)]
    return DT


def tag_of(*parts):
    return zlib.crc32(json.dumps(parts, sort_keys=True, default=repr).encode()) % 9973


ROWS = [(0, 2, 1), (3, 5, 2), (6, 9, 3), (12, 13, 4)]
CUTS = [0, 6, 20]

BASE_DEFS = {
    "ev": {"deps": [], "cname": "Ev", "version": "0.0.1", "opts": {}},
    "pa": {"deps": ["ev"], "cname": "Pa", "version": "0.0.1", "opts": {"opt_a": (1, True), "u_a": (0, False)}},
    # mix_m is taken by two plugins: pb tracks it, pc does not (same default - strax refuses diverging defaults)
    "pb": {"deps": ["pa"], "cname": "Pb", "version": "0.0.1", "opts": {"opt_b": ("x", True), "shared_s": (5, True), "mix_m": (2, True)}},
    "pc": {"deps": ["ev"], "cname": "Pc", "version": "0.0.1", "opts": {"shared_s": (5, True), "mix_m": (2, False)}},
    "pe": {"deps": ["pb", "pc"], "cname": "Pe", "version": "0.0.1", "opts": {"opt_e": ((1, 2), True)}},
    # child of pa's class: its option opt_a_child overrides the parent's opt_a
    "pd": {"deps": ["ev"], "cname": "PdChild", "version": "0.0.1", "child_of": "pa",
           "opts": {"opt_a_child": (3, True)}},
}
ORDER = ["ev", "pa", "pb", "pc", "pe", "pd"]


def descendants(defs, name):
    out = {name}
    changed = True
    while changed:
        changed = False
        for n, d in defs.items():
            if n not in out and any(x in out for x in d["deps"]):
                out.add(n)
                changed = True
    return out


def make_classes(defs):
    """Build the plugin classes for the current definitions."""
    classes = {}

    def mk(name):
        d = defs[name]
        deps = tuple(d["deps"])
        if name == "ev":
            class Ev(strax.Plugin):
                provides = "ev"
                depends_on = ()
                dtype = dt()
                data_kind = "ev"
                rechunk_on_save = False
                __version__ = d["version"]

                def source_finished(self):
                    return True

                def is_ready(self, chunk_i):
                    return chunk_i < len(CUTS) - 1

                def compute(self, chunk_i):
                    a = np.zeros(len(ROWS), dtype=dt())
                    a["time"] = [r[0] for r in ROWS]
                    a["endtime"] = [r[1] for r in ROWS]
                    a["v0"] = [r[2] for r in ROWS]
                    lo, hi = CUTS[chunk_i], CUTS[chunk_i + 1]
                    return self.chunk(start=lo, end=hi, data=a[(a["time"] >= lo) & (a["endtime"] <= hi)])

            Ev.__name__ = d["cname"]
            return Ev
        tracked = sorted(o for o, (_, tr) in d["opts"].items() if tr)

        def compute(self, **kw):
            a = list(kw.values())[0]
            # all same-kind deps are merged into one array with field v0 of the LAST dependency;
            # fold in every tracked option value, the class name and the version
            r = a.copy()
            vals = [self.config[o] for o in self._vf_tracked]
            r["v0"] = a["v0"] * 3 + tag_of(self.__class__.__name__, self.__version__, self._vf_tracked, vals)
            return r

        if d.get("child_of"):
            parent = classes[d["child_of"]]
            attrs = dict(provides=(name,), depends_on=deps, child_plugin=True, __version__=d["version"],
                         _vf_tracked=parent._vf_tracked)
            cls = type(d["cname"], (parent,), attrs)
            opts = [strax.Option(o, default=dv, track=tr, child_option=True, parent_option_name=o.replace("_child", ""))
                    for o, (dv, tr) in d["opts"].items()]
            return strax.takes_config(*opts)(cls)
        attrs = dict(provides=(name,), depends_on=deps, dtype=dt(), data_kind="ev", rechunk_on_save=False,
                     __version__=d["version"], compute=compute, _vf_tracked=tracked)
        cls = type(d["cname"], (strax.Plugin,), attrs)
        opts = [strax.Option(o, default=dv, track=tr) for o, (dv, tr) in d["opts"].items()]
        return strax.takes_config(*opts)(cls)

    for n in ORDER:
        classes[n] = mk(n)
    return classes


def fresh_context(defs, config, storage=None, **opts):
    classes = make_classes(defs)
    return strax.Context(storage=[strax.DataDirectory(storage)] if storage else [], register=[classes[n] for n in ORDER],
                         config=dict(config), processors=["single_thread"], **opts)


def key_table(st):
    return {n: str(st.key_for("0", n)) for n in ORDER}


def fresh_arrays(defs, config):
    st = fresh_context(defs, config)
    out = {}
    with common.quiet():
        for n in ORDER:
            out[n] = st.get_array("0", n, progress_bar=False)
    return out


def gen_history(seed, idx):
    rng = random.Random(f"{seed}:c02:{idx}")
    steps = []
    cur_ver = {n: BASE_DEFS[n]["version"] for n in BASE_DEFS}

    def who():
        # which of the live contexts a mutation is applied to (indices are taken modulo the number of contexts)
        return rng.choice([[0, 1, 2, 3], [0, 1, 2, 3], [0], [1], [2], [0, 2]])

    for _ in range(rng.randint(3, 12)):
        r = rng.random()
        if r < 0.22:
            opt = rng.choice(["opt_a", "opt_b", "shared_s", "opt_e", "opt_a_child", "mix_m"])
            steps.append({"op": "set_tracked", "opt": opt, "value": rng.choice(VALUES), "who": who()})
        elif r < 0.30:
            steps.append({"op": "set_untracked", "opt": "u_a", "value": rng.choice(VALUES), "who": who()})
        elif r < 0.50:
            p = rng.choice(["pa", "pb", "pc", "pe"])
            what = rng.choice(["default", "version", "cname", "deps"])
            if p == "pa" and what in ("default", "deps"):
                what = "version"  # pa shares opt_a with its child class: strax refuses diverging defaults
            st = {"op": "reregister", "plugin": p, "what": what, "who": who()}
            if what == "default":
                own = {"pa": "opt_a", "pb": "opt_b", "pc": None, "pe": "opt_e"}[p]
                if own is None:
                    st["what"] = "version"
                else:
                    st["opt"] = own
                    st["value"] = rng.choice(VALUES)
            if st["what"] == "version":
                # small pool: sequences that come back to an earlier version (A -> B -> A') must occur
                st["value"] = rng.choice(["0.0.1", "0.0.2", "0.1.0"])
            if st["what"] == "cname":
                st["value"] = f"{p.capitalize()}V{rng.randint(2, 4)}"
            if st["what"] == "deps":
                st["value"] = {"pa": ["ev"], "pb": rng.choice([["pa"], ["pc"]]), "pc": rng.choice([["ev"], ["pa"]]),
                               "pe": rng.choice([["pb", "pc"], ["pb"], ["pc", "pa"]])}[p]
            # long-lived contexts are only looked at (key_for builds plugins and fills caches) after some of
            # the steps, so that several mutations can pile up without any plugin build in between
            st["observe"] = rng.random() < 0.4
            if st["what"] != "version" and rng.random() < 0.35:
                # one registration that changes the version AND something else (a new release of the plugin)
                st["also_version"] = rng.choice(["0.0.1", "0.0.2", "0.1.0"])
            if st["what"] != "version" and rng.random() < 0.3:
                # release B then release A' under the version of A, no request in between (A -> B -> A')
                back = cur_ver[p]
                other = rng.choice([v for v in ["0.0.1", "0.0.2", "0.1.0", "0.3.0"] if v != back])
                steps.append({"op": "reregister", "plugin": p, "what": "version", "value": other, "observe": False,
                              "who": st["who"]})
                st["also_version"] = back
            cur_ver[p] = st["value"] if st["what"] == "version" else st.get("also_version", cur_ver[p])
            steps.append(st)
        elif r < 0.58:
            # derive a context; the parent may stay in use beside the child (their settings then diverge)
            steps.append({"op": "new_context", "who": rng.choice([0, 1, 2]), "keep_parent": rng.random() < 0.6})
        elif r < 0.80:
            steps.append({"op": "make", "who": rng.choice([0, 1, 2, 3]), "target": rng.choice(ORDER[1:])})
        else:
            steps.append({"op": "get_array", "who": rng.choice([0, 1, 2, 3]), "target": rng.choice(ORDER[1:])})
    # always end with requests from several contexts
    steps.append({"op": "get_array", "who": 0, "target": rng.choice(["pe", "pb", "pd"])})
    steps.append({"op": "get_array", "who": 1, "target": rng.choice(["pe", "pa", "pc"])})
    steps.append({"op": "get_array", "who": 2, "target": rng.choice(["pe", "pb", "pd"])})
    fz = rng.choice([None, {"fuzzy_for": [rng.choice(["pa", "pb", "pc"])]}, {"fuzzy_for_options": [rng.choice(["opt_a", "opt_b", "shared_s"])]}])
    return {"steps": steps, "fuzzy": fz}


def lineage_diff_accepted(stored, wanted, fuzzy_for, fuzzy_opts):
    """Independent atom-wise diff of two lineages."""
    for d in set(stored) | set(wanted):
        if d in fuzzy_for:
            continue
        if d not in stored or d not in wanted:
            return False
        a, b = stored[d], wanted[d]
        if a[0] != b[0] or a[1] != b[1]:
            return False
        oa = {k: v for k, v in a[2].items() if k not in fuzzy_opts}
        ob = {k: v for k, v in b[2].items() if k not in fuzzy_opts}
        if json.loads(json.dumps(oa)) != json.loads(json.dumps(ob)):
            return False
    return True


def listing(d):
    return sorted(os.listdir(d))


def run_history(h):
    import copy

    viol, cnt = [], {}

    hidden = {"deps": False}

    def add(kind, text, step_i, **extra):
        sig = {"kind": kind, "f_hidden_deps_change": hidden["deps"]}
        sig.update(extra)
        if len(viol) < 8:
            viol.append({"sig": sig, "what": f"{kind} at step {step_i}: {text}"[:700], "case": h})

    d = hrun.mktemp("c02-")
    fresh_cache = {}

    def mkey(m):
        return json.dumps(m["defs"], sort_keys=True, default=repr) + repr(sorted(m["config"].items(), key=lambda kv: kv[0]))

    def fresh_keys_of(m):
        k = "k" + mkey(m)
        if k not in fresh_cache:
            fresh_cache[k] = key_table(fresh_context(m["defs"], m["config"]))
        return fresh_cache[k]

    def fresh_arrays_of(m):
        k = "a" + mkey(m)
        if k not in fresh_cache:
            fresh_cache[k] = fresh_arrays(m["defs"], m["config"])
        return fresh_cache[k]

    states = []

    def edges_of(defs, n):
        out, todo = set(), [n]
        while todo:
            x = todo.pop()
            for dpn in defs[x]["deps"]:
                if (x, dpn) not in out:
                    out.add((x, dpn))
                    todo.append(dpn)
        return frozenset(out)

    def note_state(m):
        """Known finding F20 by mechanism: two states reached in this history in which a data type has the
        same key but a different dependency sub-graph (the lineage records no dependency structure)."""
        fk = fresh_keys_of(m)
        eg = {n: edges_of(m["defs"], n) for n in ORDER}
        for fk2, eg2 in states:
            if any(fk[n] == fk2[n] and eg[n] != eg2[n] for n in ORDER):
                hidden["deps"] = True
        states.append((fk, eg))

    try:
        # every live context has its own model (definitions + options) = what a brand-new context would be given
        models = [{"ctx": fresh_context(BASE_DEFS, {}, d), "defs": copy.deepcopy(BASE_DEFS), "config": {}} for _ in range(2)]
        mutated = False
        requests_after_mutation = 0
        note_state(models[0])
        for i, s in enumerate(h["steps"]):
            op = s["op"]
            targets = sorted({k % len(models) for k in s.get("who", [0, 1])}) if op in ("set_tracked", "set_untracked", "reregister") else []
            for k in targets:
                m = models[k]
                defs, config = m["defs"], m["config"]
                before_keys = fresh_keys_of(m)
                expect_changed = None
                if op in ("set_tracked", "set_untracked"):
                    old_cfg = dict(config)
                    config[s["opt"]] = s["value"]
                    m["ctx"].set_config({s["opt"]: s["value"]})
                    mutated = True
                    if op == "set_untracked":
                        expect_changed = set()
                    else:
                        def eff(cfg, o):
                            if o in cfg:
                                return cfg[o]
                            for dd in defs.values():
                                if o in dd["opts"]:
                                    return dd["opts"][o][0]
                        same = json.dumps(eff(old_cfg, s["opt"]), default=repr) == json.dumps(eff(config, s["opt"]), default=repr)
                        takers = [n for n, dd in defs.items() if s["opt"] in dd["opts"] and dd["opts"][s["opt"]][1]]
                        expect_changed = set() if same else set().union(*[descendants(defs, n) for n in takers]) if takers else set()
                else:
                    p = s["plugin"]
                    if s["what"] == "default":
                        was_set = s["opt"] in config
                        old_default = defs[p]["opts"][s["opt"]][0]
                        defs[p]["opts"][s["opt"]] = (s["value"], True)
                        changed = (not was_set) and json.dumps(old_default, default=repr) != json.dumps(s["value"], default=repr)
                    elif s["what"] == "version":
                        changed = defs[p]["version"] != s["value"]
                        defs[p]["version"] = s["value"]
                    elif s["what"] == "cname":
                        changed = defs[p]["cname"] != s["value"]
                        defs[p]["cname"] = s["value"]
                    else:
                        changed = defs[p]["deps"] != s["value"]
                        defs[p]["deps"] = list(s["value"])
                    mutated = True
                    ver_before = defs[p]["version"]
                    if s.get("also_version") is not None:
                        defs[p]["version"] = s["also_version"]
                    classes = make_classes(defs)
                    regs = [classes[p]] + ([classes["pd"]] if p == "pa" else [])
                    m["ctx"].register(regs)
                    affected = descendants(defs, p) | (descendants(defs, "pd") if p == "pa" and s["what"] in ("version", "cname") else set())
                    if p == "pa" and s["what"] == "default":
                        affected = descendants(defs, p)  # the child overrides opt_a, its own lineage drops the parent's option
                    expect_changed = affected if changed else set()
                    if s.get("also_version") is not None and ver_before != s["also_version"]:
                        expect_changed = expect_changed | descendants(defs, p) | (descendants(defs, "pd") if p == "pa" else set())
                after_keys = fresh_keys_of(m)
                note_state(m)
                cnt["sensitivity_checks"] = cnt.get("sensitivity_checks", 0) + 1
                got_changed = {n for n in ORDER if after_keys[n] != before_keys[n]}
                if got_changed != expect_changed:
                    if s.get("what") == "deps" and got_changed < expect_changed:
                        hidden["deps"] = True
                    add("key-sensitivity", f"step {s} changed the keys of {sorted(got_changed)}, expected {sorted(expect_changed)}", i,
                        after=op, what=s.get("what"))
            if op == "new_context":
                k = s["who"] % len(models)
                child = models[k]["ctx"].new_context()
                cm = {"ctx": child, "defs": copy.deepcopy(models[k]["defs"]), "config": dict(models[k]["config"])}
                if s.get("keep_parent"):
                    cnt["derived_contexts_beside_parent"] = cnt.get("derived_contexts_beside_parent", 0) + 1
                    if len(models) < 4:
                        models.append(cm)
                    else:
                        models[(k + 1) % len(models)] = cm
                else:
                    models[k] = cm
            elif op in ("make", "get_array"):
                m = models[s["who"] % len(models)]
                c = m["ctx"]
                want = fresh_arrays_of(m)
                try:
                    with common.quiet():
                        if op == "make":
                            c.make("0", s["target"], progress_bar=False)
                        got = c.get_array("0", s["target"], progress_bar=False)
                except Exception as e:  # noqa: BLE001
                    sg = common.exc_sig(e)
                    add("exception", f"{op}({s['target']}) failed: {e!r}", i, **sg)
                    continue
                cnt["data_requests_checked"] = cnt.get("data_requests_checked", 0) + 1
                if mutated:
                    requests_after_mutation += 1
                    cnt["stale_candidates"] = cnt.get("stale_candidates", 0) + 1
                w = want[s["target"]]
                if not (len(got) == len(w) and np.array_equal(got["v0"], w["v0"])):
                    add("stale-data", f"context {s['who'] % len(models)} returned v0={got['v0'].tolist()} for {s['target']}, a fresh context "
                                      f"with the same definitions computes {w['v0'].tolist()}", i, op=op)
            # key tables of every live context after every step
            if not (op == "reregister" and not s.get("observe", True)):
                for k, m in enumerate(models):
                    cnt["key_tables_compared"] = cnt.get("key_tables_compared", 0) + 1
                    kt = key_table(m["ctx"])
                    fk = fresh_keys_of(m)
                    if kt != fk:
                        diff = {n: (kt[n], fk[n]) for n in ORDER if kt[n] != fk[n]}
                        add("stale-key", f"context {k} keys differ from a fresh context with its settings: {diff}", i, after=op, what=s.get("what"))
        defs, config = models[0]["defs"], models[0]["config"]
        # ---- fuzzy matching against what is stored now
        fz = h.get("fuzzy")
        if fz:
            ff = tuple(fz.get("fuzzy_for", ()))
            fo = tuple(fz.get("fuzzy_for_options", ()))
            stf = fresh_context(defs, config, d, fuzzy_for=ff, fuzzy_for_options=fo)
            before = listing(d)
            for n in ORDER[1:]:
                wanted = stf.key_for("0", n).lineage
                acc = False
                for name in before:
                    parts = name.split("-")
                    if len(parts) == 3 and parts[1] == n and not name.endswith("_temp"):
                        mdp = [f for f in os.listdir(os.path.join(d, name)) if f.endswith("metadata.json")]
                        if mdp:
                            md = json.load(open(os.path.join(d, name, mdp[0])))
                            if "writing_ended" in md and "exception" not in md and \
                                    lineage_diff_accepted(md["lineage"], json.loads(json.dumps(wanted)), ff, fo):
                                acc = True
                cnt["fuzzy_checks"] = cnt.get("fuzzy_checks", 0) + 1
                got = stf.is_stored("0", n)
                if got != acc:
                    add("fuzzy", f"fuzzy {fz}: is_stored({n}) = {got}, but the lineage diff says {acc}", len(h["steps"]))
            try:
                with common.quiet():
                    stf.get_array("0", "pe", progress_bar=False)
            except Exception as e:  # noqa: BLE001
                add("exception", f"get_array under fuzzy matching failed: {e!r}", len(h["steps"]), **common.exc_sig(e))
            if listing(d) != before:
                add("fuzzy-write", f"a request under fuzzy matching changed the storage: {sorted(set(listing(d)) ^ set(before))}", len(h["steps"]))
            # copying to a second frontend from the fuzzy context: whatever arrives there must be what a plain
            # context with the same settings computes (data that only matched fuzzily must not be re-labelled)
            d2 = hrun.mktemp("c02b-")
            try:
                classes = make_classes(defs)
                st2 = strax.Context(storage=[strax.DataDirectory(d), strax.DataDirectory(d2)], register=[classes[n] for n in ORDER],
                                    config=dict(config), processors=["single_thread"], fuzzy_for=ff, fuzzy_for_options=fo)
                for n in ORDER[1:]:
                    try:
                        with common.quiet():
                            st2.copy_to_frontend("0", n, target_frontend_id=1)
                        cnt["fuzzy_copies"] = cnt.get("fuzzy_copies", 0) + 1
                    except Exception:  # noqa: BLE001
                        pass
                plain = fresh_context(defs, config, d2, forbid_creation_of=("*",))
                want = fresh_arrays_of(models[0])
                for n in ORDER[1:]:
                    if plain.is_stored("0", n):
                        with common.quiet():
                            got = plain.get_array("0", n, progress_bar=False)
                        if not (len(got) == len(want[n]) and np.array_equal(got["v0"], want[n]["v0"])):
                            add("stale-data", f"after copy_to_frontend from a fuzzy context the target frontend holds {n} = "
                                              f"{got['v0'].tolist()} under the key of the current settings; a fresh context computes "
                                              f"{want[n]['v0'].tolist()}", len(h["steps"]), op="fuzzy-copy")
            finally:
                hrun.rm(d2)
    finally:
        hrun.rm(d)
    cnt["histories"] = 1
    return viol, cnt, mutated and requests_after_mutation > 0


HELPER = r"""
import json, sys, random
from vf.checks import c02
spec = json.load(open(sys.argv[1]))
cfg = list(spec["config"].items())
random.Random(int(sys.argv[2])).shuffle(cfg)
st = c02.fresh_context(spec["defs"], dict(cfg))
print(json.dumps(c02.key_table(st)))
"""


def cross_process(defs, config, workdir):
    """Key table computed in three other processes (hash seed 0, 1, random; shuffled option order)."""
    p = os.path.join(workdir, "spec.json")
    with open(p, "w") as f:
        json.dump(common.jsonable({"defs": defs, "config": config}), f)
    tables = []
    for hs, sh in (("0", 1), ("1", 2), ("random", 3)):
        env = dict(os.environ, PYTHONHASHSEED=hs, PYTHONPATH=common.VERIF + os.pathsep + common.REPO)
        r = subprocess.run([sys.executable, "-c", HELPER, p, str(sh)], env=env, capture_output=True, text=True, timeout=300)
        if r.returncode != 0:
            return None, r.stderr[-500:]
        tables.append(json.loads(r.stdout.strip().splitlines()[-1]))
    return tables, None


def units(tier, seed):
    q = tier == "quick"
    n = 16 if q else 64
    per = 12 if q else 160
    us = [{"name": f"hist-{k}", "fam": "hist", "seed": seed, "lo": k * per, "hi": (k + 1) * per} for k in range(n)]
    us.append({"name": "crossproc", "fam": "xproc", "seed": seed, "n": 3 if q else 12})
    return us


def run_unit(u):
    res = {"evaluations": 0, "hashes": [], "counters": {}, "samples": [], "violations": [], "inconclusive": []}
    cnt = res["counters"]
    if u["fam"] == "xproc":
        import copy

        rng = random.Random(u["seed"] + 5)
        for i in range(u["n"]):
            defs = copy.deepcopy(BASE_DEFS)
            # tuples become lists in JSON: keep the spec JSON-native so that both sides see the same values
            config = {o: json.loads(json.dumps(rng.choice(VALUES))) for o in rng.sample(["opt_a", "opt_b", "shared_s", "opt_e", "u_a", "opt_a_child"], 4)}
            for n in defs:
                defs[n]["opts"] = {o: (json.loads(json.dumps(v[0])), v[1]) for o, v in defs[n]["opts"].items()}
            here = key_table(fresh_context(defs, config))
            wd = hrun.mktemp("c02x-")
            try:
                tables, err = cross_process(defs, config, wd)
            finally:
                hrun.rm(wd)
            res["evaluations"] += 1
            if tables is None:
                res["inconclusive"].append(f"cross-process helper failed: {err}")
                continue
            cnt["cross_process_tables"] = cnt.get("cross_process_tables", 0) + len(tables)
            res["hashes"].append(common.chash(["x", config]))
            for t in tables:
                if t != here:
                    res["violations"].append({"sig": {"kind": "key-nondeterminism"},
                                              "what": f"key table differs across processes / hash seeds / option order: {t} vs {here}",
                                              "case": {"xproc": True, "config": config}})
        return res
    for idx in range(u["lo"], u["hi"]):
        h = gen_history(u["seed"], idx)
        viol, c, nt = run_history(h)
        res["evaluations"] += 1
        if nt:
            res["hashes"].append(common.chash(h))
        for k, v in c.items():
            cnt[k] = cnt.get(k, 0) + v
        if len(res["violations"]) < 20:
            res["violations"].extend(viol[:2])
        if not res["samples"] and nt:
            res["samples"].append(h)
    return res


def replay(case):
    if case.get("xproc"):
        return []
    viol, c, nt = run_history(case)
    return viol


def _exercise():
    for i in range(5):
        run_history(gen_history(4242, i))


def warm():
    _exercise()


def prefork():
    _exercise()
