"""C18 Hit finding and data reduction keep exactly the samples they should.

Real strax.find_hits / cut_outside_hits / record_links / baseline / integrate /
zero_out_of_bounds are run on generated records (all integer waveforms over a small
alphabet, 1..3 fragments per pulse, 1..3 channels) and compared with forward
references written in pulse coordinates. Second pass under NUMBA_BOUNDSCHECK=1.
"""
import itertools
import os
import random

import numpy as np

from vf import common

common.setup_env(boundscheck=bool(os.environ.get("NUMBA_BOUNDSCHECK")))
strax = common.import_strax()
from vf.checks.meta import META  # noqa: E402

PROPERTY = "C18"
LEVEL = "exploration"
TECHNIQUE = META["C18"]["technique"]
RULE = (
    "case = (waveform(s), record length, dt, baseline fraction, channels, threshold spec, extensions, "
    "fragment removal); exhaustive over alphabet {0,1,2,5} for pulses up to 7 samples (distinct by "
    "construction), seeded random for longer pulses / 3 fragments (distinct by hash); non-trivial = "
    "at least one sample >= the lowest threshold, i.e. at least one hit exists"
)
ASSUMPTIONS = [
    "records sorted by time, record_i and pulse_length accurate (as produced by a DAQ reader)",
    "thresholds >= 1 and waveform samples >= 0 (max_time is undefined for non-positive heights)",
    "cut_baseline is outside the statement (does not compile under numba 0.67) and is not checked",
]
REQUIRED = {"find_hits": 2000, "cut_outside_hits": 2000, "record_links": 500, "baseline": 200,
            "integrate": 200, "zero_out_of_bounds": 200, "hits_found": 2000}
UNIT_TIMEOUT = 1500
ALPHABET = (0, 1, 2, 5)


def mkpulse(wave, ch, t0, L, dt=1, blfrac=0.0, rms=0.0):
    n = len(wave)
    nf = (n + L - 1) // L
    r = np.zeros(nf, strax.record_dtype(L))
    for i in range(nf):
        seg = wave[i * L : (i + 1) * L]
        r[i]["data"][: len(seg)] = seg
        r[i]["length"] = len(seg)
        r[i]["time"] = t0 + i * L * dt
        r[i]["dt"] = dt
        r[i]["channel"] = ch
        r[i]["record_i"] = i
        r[i]["pulse_length"] = n
        r[i]["baseline"] = 100 + blfrac
        r[i]["baseline_rms"] = rms
    return r


def ref_links(records, L):
    """prev/next index of the time-adjacent fragment of the same pulse in the same channel."""
    n = len(records)
    prev = [-1] * n
    nxt = [-1] * n
    for i in range(n):
        r = records[i]
        if r["record_i"] == 0:
            continue
        # most recent earlier record in this channel
        js = [j for j in range(i) if records[j]["channel"] == r["channel"]]
        if not js:
            continue
        j = js[-1]
        if records[j]["time"] + L * records[j]["dt"] == r["time"]:
            prev[i] = j
            nxt[j] = i
    return prev, nxt


def ref_hits(records, thr_amp, thr_hon):
    out = []
    for ri, r in enumerate(records):
        d = r["data"][: r["length"]].astype(np.int64)
        ch = int(r["channel"])
        th = max(float(thr_amp[ch]), float(np.float32(r["baseline_rms"]) * thr_hon[ch]))
        fp = float(np.float32(r["baseline"]) % 1)
        i = 0
        while i < len(d):
            if d[i] >= th:
                j = i
                while j < len(d) and d[j] >= th:
                    j += 1
                seg = d[i:j]
                out.append(
                    dict(
                        time=int(r["time"]) + i * int(r["dt"]), length=j - i, dt=int(r["dt"]), left=i, right=j,
                        area=float(seg.sum()) + (j - i) * fp, height=float(seg.max()) + fp,
                        max_time=int(r["time"]) + (i + int(np.argmax(seg))) * int(r["dt"]),
                        record_i=ri, channel=ch, threshold=th,
                    )
                )
                i = j
            else:
                i += 1
    return out


def ref_keep(records, hits, le, re_, L):
    keep = np.zeros((len(records), L), bool)
    prev, nxt = ref_links(records, L)
    for h in hits:
        ri = h["record_i"]
        r = records[ri]
        for s in range(h["left"] - le, h["right"] + re_):
            if 0 <= s < r["length"]:
                keep[ri, s] = True
            elif s < 0 and prev[ri] != -1 and s >= -L:
                keep[prev[ri], L + s] = True
            elif s >= L and nxt[ri] != -1 and s < 2 * L:
                keep[nxt[ri], s - L] = True
    return keep


class Acc:
    def __init__(self):
        self.evaluations = 0
        self.distinct = 0
        self.hashes = set()
        self.counters = {}
        self.samples = []
        self.violations = []

    def count(self, k, n=1):
        self.counters[k] = self.counters.get(k, 0) + n

    def viol(self, fn, kind, case, detail, exc=None):
        if len(self.violations) < 25:
            sig = {"fn": fn, "kind": kind}
            if exc is not None:
                sig.update(common.exc_sig(exc))
            case = dict(case, fn=fn, boundscheck=bool(os.environ.get("NUMBA_BOUNDSCHECK")))
            self.violations.append({"sig": sig, "what": f"{fn}: {kind}: {detail}"[:600], "case": case})

    def result(self):
        return dict(evaluations=self.evaluations, distinct=self.distinct, hashes=sorted(self.hashes),
                    counters=self.counters, samples=self.samples[:3], violations=self.violations)


THRESH_SPECS = (
    {"amp": [1, 2, 5], "hon": 0},          # per-channel
    {"amp": [5, 1, 2], "hon": 0},
    {"amp": 2, "hon": 0},                  # scalar
    {"amp": [1, 1, 1], "hon": [0.0, 1.0, 2.5], "rms": 2.0},  # noise-scaled
    # non-integer thresholds (the stored samples are integers, the baseline has a fractional part)
    {"amp": [1.5, 2.25, 0.5], "hon": 0},
    {"amp": [1, 1, 1], "hon": [0.75, 1.25, 1.0], "rms": 2.0},
    # mixed forms: one threshold per channel (integers), the other one number (not an integer)
    {"amp": [2, 3, 1], "hon": 1.25, "rms": 2.0},
    {"amp": 2.5, "hon": [1, 2, 0], "rms": 2.0},
)
EXTS = ((0, 0), (1, 2), (2, 1), (0, None), (None, None), (None, 0), (3, 7))  # None -> L


def build_records(case):
    L = case["L"]
    dt = case.get("dt", 1)
    recs = []
    for ch, pulse in enumerate(case["pulses"]):
        wave, t0 = pulse[0], pulse[1]
        if len(pulse) > 2:
            ch = pulse[2]  # a further pulse in a channel that already has one
        if wave is None:
            continue
        recs.append(mkpulse(list(wave), ch, t0, L, dt, case.get("blfrac", 0.0), case.get("rms", 0.0)))
    recs = np.concatenate(recs)
    recs = strax.sort_by_time(recs)
    drop = case.get("drop")
    if drop is not None and len(recs) > 1:
        recs = np.delete(recs, drop % len(recs))
    return recs


def thresholds(spec, nch):
    amp = spec["amp"]
    hon = spec["hon"]
    amp_arr = np.array(amp[:nch], dtype=float) if isinstance(amp, list) else np.ones(nch) * amp
    hon_arr = np.array(hon[:nch], dtype=float) if isinstance(hon, list) else np.ones(nch) * hon
    call_amp = np.array(amp[:nch]) if isinstance(amp, list) else amp
    call_hon = np.array(hon[:nch]) if isinstance(hon, list) else hon
    return amp_arr, hon_arr, call_amp, call_hon


HIT_FIELDS = ("time", "length", "dt", "left", "right", "area", "height", "max_time", "record_i", "channel", "threshold")


def check_case(acc, case, specs=THRESH_SPECS, exts=EXTS):
    L = case["L"]
    recs = build_records(case)
    nch = int(recs["channel"].max()) + 1
    meta = [f for f in recs.dtype.names if f not in ("data", "reduction_level")]
    nontrivial = False
    # record_links
    acc.evaluations += 1
    try:
        p, n = strax.record_links(recs)
        acc.count("record_links")
        rp, rn = ref_links(recs, L)
        if list(map(int, p)) != rp or list(map(int, n)) != rn:
            acc.viol("record_links", "mismatch", case, f"got {list(map(int, p))},{list(map(int, n))} ref {rp},{rn}")
    except Exception as e:
        acc.viol("record_links", "exception", case, repr(e), e)
    for si, spec in enumerate(specs):
        c2 = dict(case, thr=si)
        if "rms" in spec:
            c2 = dict(c2, rms=spec["rms"])
            recs_s = build_records(c2)
        else:
            recs_s = recs
        amp_arr, hon_arr, call_amp, call_hon = thresholds(spec, max(nch, 3) if isinstance(spec["amp"], list) else nch)
        acc.evaluations += 1
        try:
            before = recs_s.copy()
            hits = strax.find_hits(recs_s, min_amplitude=call_amp, min_height_over_noise=call_hon)
            acc.count("find_hits")
        except Exception as e:
            acc.viol("find_hits", "exception", c2, repr(e), e)
            continue
        if not np.array_equal(before, recs_s):
            acc.viol("find_hits", "mismatch", c2, "records modified by find_hits")
        ref = ref_hits(recs_s, np.concatenate([amp_arr, np.ones(3)]), np.concatenate([hon_arr, np.zeros(3)]))
        ok = len(hits) == len(ref)
        if ok:
            for h, r in zip(hits, ref):
                for k in HIT_FIELDS:
                    if k in ("area", "height", "threshold"):
                        if abs(float(h[k]) - r[k]) > 1e-4 * max(1.0, abs(r[k])):
                            ok = False
                    elif int(h[k]) != r[k]:
                        ok = False
        if not ok:
            acc.viol("find_hits", "mismatch", c2,
                     f"got {hits[list(HIT_FIELDS)].tolist()} ref {[[r[k] for k in HIT_FIELDS] for r in ref]}")
            continue
        acc.count("hits_found", len(ref))
        if ref:
            nontrivial = True
        for le, re_ in exts:
            le = L if le is None else le
            re_ = L if re_ is None else re_
            acc.evaluations += 1
            c3 = dict(c2, ext=[le, re_])
            try:
                before = recs_s.copy()
                new = strax.cut_outside_hits(recs_s, hits, left_extension=le, right_extension=re_)
                acc.count("cut_outside_hits")
            except Exception as e:
                acc.viol("cut_outside_hits", "exception", c3, repr(e), e)
                continue
            keep = ref_keep(recs_s, ref, le, re_, L)
            exp = np.where(keep, before["data"], 0)
            if not np.array_equal(new["data"], exp):
                acc.viol("cut_outside_hits", "mismatch", c3,
                         f"data {new['data'].tolist()} expected {exp.tolist()} from {before['data'].tolist()}")
            elif not all(np.array_equal(new[f], before[f]) for f in meta):
                acc.viol("cut_outside_hits", "mismatch", c3, "record metadata altered")
            elif not np.array_equal(before, recs_s):
                acc.viol("cut_outside_hits", "mismatch", c3, "input records modified")
    return nontrivial


def check_baseline(acc, case):
    """raw pulse -> baseline() -> zero_out_of_bounds() -> integrate(): consistency of data/baseline/area."""
    L = case["L"]
    bs = case["baseline_samples"]
    flip = case["flip"]
    recs = []
    for ch, (wave, t0) in enumerate(case["pulses"]):
        recs.append(mkpulse(list(wave), ch, t0, L))
    recs = strax.sort_by_time(np.concatenate(recs))
    recs["baseline"] = 0
    # garbage beyond 'length' in the last fragment must be wiped by zero_out_of_bounds
    for r in recs:
        r["data"][r["length"] :] = 7
    orig = recs.copy()
    acc.evaluations += 1
    try:
        strax.baseline(recs, baseline_samples=bs, flip=flip)
        acc.count("baseline")
    except Exception as e:
        acc.viol("baseline", "exception", case, repr(e), e)
        return
    # reference: per pulse (channel), first fragment's first bs samples (of the data array)
    bl_of = {}
    for i, r in enumerate(orig):
        ch = int(r["channel"])
        if r["record_i"] == 0:
            w = r["data"][:bs].astype(np.float64)
            bl_of[ch] = (w.mean(), w.std())
        bl, rms = bl_of[ch]
        sign = -1 if flip else 1
        n = int(r["length"])
        exp = sign * (r["data"][:n].astype(np.int64) - int(bl))
        got = recs[i]
        if not np.array_equal(got["data"][:n], exp) or not np.array_equal(got["data"][n:], r["data"][n:]):
            acc.viol("baseline", "mismatch", case, f"record {i}: data {got['data'].tolist()} expected {exp.tolist()}")
            return
        if abs(float(got["baseline"]) - bl) > 1e-3 or abs(float(got["baseline_rms"]) - rms) > 1e-3:
            acc.viol("baseline", "mismatch", case, f"record {i}: baseline {got['baseline']},{got['baseline_rms']} expected {bl},{rms}")
            return
    acc.evaluations += 1
    try:
        pre = recs.copy()
        strax.zero_out_of_bounds(recs)
        acc.count("zero_out_of_bounds")
        for i, r in enumerate(recs):
            n = int(r["length"])
            if r["data"][n:].any() or not np.array_equal(r["data"][:n], pre[i]["data"][:n]):
                acc.viol("zero_out_of_bounds", "mismatch", case, f"record {i}: {r['data'].tolist()} from {pre[i]['data'].tolist()}")
                return
        strax.integrate(recs)
        acc.count("integrate")
        for i, r in enumerate(recs):
            n = int(r["length"])
            if flip:
                true_area = float((float(r["baseline"]) - orig[i]["data"][:n].astype(np.float64)).sum())
            else:
                true_area = float(r["data"][:n].sum() + (float(r["baseline"]) % 1) * n)
            if abs(float(r["area"]) - true_area) > 0.5 + 1e-3 * n:
                acc.viol("integrate", "mismatch", case, f"record {i}: area {r['area']} vs integral {true_area}")
                return
    except Exception as e:
        acc.viol("integrate/zero_out_of_bounds", "exception", case, repr(e), e)
    # missing 0th fragment must be refused unless sloppy chunking is allowed
    if len(recs) > 1 and orig[0]["record_i"] == 0 and orig[1]["record_i"] != 0 and len(set(orig["channel"])) == 1:
        part = orig[1:].copy()
        try:
            with common.quiet():
                strax.baseline(part, baseline_samples=bs, flip=flip)
            acc.viol("baseline", "no-rejection", case, "missing 0th fragment accepted")
        except RuntimeError:
            acc.count("baseline")
        except Exception as e:
            acc.viol("baseline", "exception", case, repr(e), e)


def units(tier, seed):
    q = tier == "quick"
    us = []
    for bc in (False, True):
        tag = "bc" if bc else "plain"
        nmax = (5 if q else 6) if bc else (6 if q else 7)
        for L in (4, 5) if not q else (4,):
            for n in range(1, nmax + 1):
                nsh = 4 if n >= 6 else 1
                for sh in range(nsh):
                    us.append({"name": f"exh-{tag}-L{L}-n{n}-s{sh}", "fam": "exh", "L": L, "n": n,
                               "shard": sh, "nshards": nsh, "boundscheck": bc})
        for k in range(2 if q else 10):
            us.append({"name": f"rand-{tag}-{k}", "fam": "rand", "seed": seed * 1000 + k + (500 if bc else 0),
                       "n": 150 if q else 500, "boundscheck": bc})
        us.append({"name": f"baseline-{tag}", "fam": "baseline", "seed": seed + (7 if bc else 0),
                   "n": 300 if q else 2000, "boundscheck": bc})
    return us


def run_unit(u):
    acc = Acc()
    if u["fam"] == "exh":
        L, n = u["L"], u["n"]
        for k, wave in enumerate(itertools.product(ALPHABET, repeat=n)):
            if k % u["nshards"] != u["shard"]:
                continue
            # channel 0: the wave; channel 1: reversed, shifted so fragments interleave in time
            case = {"L": L, "pulses": [[list(wave), 10], [list(wave[::-1]), 10 + (k % 3)]],
                    "dt": 1 + (k % 2), "blfrac": (0.0, 0.25, 0.5)[k % 3]}
            nt = check_case(acc, case)
            if nt:
                acc.distinct += 1
            if nt and len(acc.samples) < 2 and n >= 5:
                acc.samples.append(case)
    elif u["fam"] == "rand":
        rng = random.Random(u["seed"])
        for i in range(u["n"]):
            L = rng.choice([3, 4, 5, 6])
            nch = rng.randint(1, 3)
            pulses = []
            t0 = rng.choice([0, 0, 3, 10])
            for ch in range(nch):
                n = rng.randint(1, 3 * L)
                pulses.append([[rng.choice(ALPHABET) for _ in range(n)], t0 + rng.randint(0, 2 * L)])
            dt_ = rng.choice([1, 2, 10])
            if rng.random() < 0.35:
                # a second pulse in the same channel: on the record grid right behind the first one, directly
                # after its last sample, or somewhere later
                ch = rng.randrange(nch)
                w0, p0 = pulses[ch][0], pulses[ch][1]
                nf = (len(w0) + L - 1) // L
                start = rng.choice([p0 + nf * L * dt_, p0 + len(w0) * dt_, p0 + nf * L * dt_ + rng.randint(1, 2 * L) * dt_])
                pulses.append([[rng.choice(ALPHABET) for _ in range(rng.randint(1, 2 * L))], start, ch])
            case = {"L": L, "pulses": pulses, "dt": dt_,
                    "blfrac": rng.choice([0.0, 0.25, 0.5, 0.75]),
                    "drop": rng.choice([None, None, 0, 1, 2, 3])}
            nt = check_case(acc, case, specs=THRESH_SPECS, exts=[rng.choice(EXTS), (rng.randint(0, 2 * L), rng.randint(0, 2 * L))])
            if nt:
                acc.hashes.add(common.chash(case))
            if nt and len(acc.samples) < 2:
                acc.samples.append(case)
    elif u["fam"] == "baseline":
        rng = random.Random(u["seed"])
        for i in range(u["n"]):
            L = rng.choice([3, 4, 6])
            nch = rng.randint(1, 2)
            pulses = [[[rng.choice([98, 99, 100, 101, 103, 90, 60]) for _ in range(rng.randint(1, 3 * L))],
                       10 + rng.randint(0, L)] for _ in range(nch)]
            case = {"L": L, "pulses": pulses, "baseline_samples": rng.choice([1, 2, 3, L, 40]), "flip": rng.random() < 0.7}
            check_baseline(acc, case)
            acc.hashes.add(common.chash(case))
            if len(acc.samples) < 1:
                acc.samples.append(dict(case, fn="baseline/integrate"))
    return acc.result()


def replay(case):
    acc = Acc()
    if "baseline_samples" in case:
        check_baseline(acc, case)
    else:
        specs = THRESH_SPECS
        exts = EXTS
        if "ext" in case:
            exts = [tuple(case["ext"])]
        base = {k: v for k, v in case.items() if k not in ("thr", "ext", "fn", "boundscheck", "rms")}
        check_case(acc, base, specs=specs, exts=exts)
    return acc.violations


def warm():
    acc = Acc()
    for L in (3, 4, 5, 6):
        case = {"L": L, "pulses": [[[1, 5, 0, 2, 5, 5, 1], 10], [[5, 0, 1], 11]], "dt": 1, "blfrac": 0.25}
        check_case(acc, case)
        check_baseline(acc, {"L": L, "pulses": [[[99, 100, 98, 103, 99], 10]], "baseline_samples": 2, "flip": True})
