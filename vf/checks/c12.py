"""C12 Outputs that violate a plugin's declared contract are rejected, not stored.

Fault enumeration: violation kind x plugin kind x position of the offending chunk x
processor. A 'victim' plugin of each kind (source, ordinary, multi-output,
down-chunking, loop, cut, overlap-window) behaves correctly except at one compute call
where it delivers something it does not declare. Oracle: get_array raises; get_iter
never yields a chunk violating the declared contract (dtype, rows in range, label,
continuity) before raising; afterwards the offending data type is not stored (fresh
context) -- or, if anything is reported stored, it loads and satisfies the contract.
"""
import os

import numpy as np

from vf import common

common.setup_env()
strax = common.import_strax()
from immutabledict import immutabledict  # noqa: E402

from vf.checks.meta import META  # noqa: E402
from vf.harness import run as hrun  # noqa: E402

PROPERTY = "C12"
LEVEL = "fault_enumeration"
TECHNIQUE = META["C12"]["technique"]
RULE = (
    "fault = (plugin kind, violation kind applicable to it, index of the offending compute call in {first, "
    "middle, last}, processor, storage on/off); the full product is enumerated (distinct by construction) over "
    "two input layouts; non-trivial = the victim's offending call was actually reached (counted by the plugin)"
)
ASSUMPTIONS = [
    "chunks of at most 500 time-sorted rows (the window the Chunk constructor inspects for late rows)",
    "violations are injected inside the plugin's own compute, i.e. they are what a buggy user plugin would do",
]
REQUIRED = {"faults_reached": 150, "rejected": 100, "yield_checks": 100, "storage_checks": 100}
UNIT_TIMEOUT = 900

GOOD = None
BAD = None
ROWS = [(0, 2, 1), (3, 5, 2), (5, 6, 3), (8, 12, 4), (14, 15, 5), (20, 22, 6), (23, 24, 7)]
LAYOUTS = {"three": [0, 7, 13, 30], "five": [0, 3, 7, 13, 19, 30]}
REACHED = {"n": 0}


def dtypes():
    global GOOD, BAD
    if GOOD is None:
        GOOD = strax.time_fields + [(("value field v0", "v0"), np.int64), (("array field w", "w"), np.int16, (4,))]
        BAD = strax.time_fields + [(("value field v0", "v0"), np.float32), (("surprise", "zz"), np.int16)]
    return GOOD, BAD


def good_arr(rows):
    g, _ = dtypes()
    a = np.zeros(len(rows), dtype=g)
    if len(rows):
        a["time"] = [r[0] for r in rows]
        a["endtime"] = [r[1] for r in rows]
        a["v0"] = [r[2] for r in rows]
    return a


def plain(dt):
    """dtype without titles, array shapes kept - computed here, not with strax's own helper (which is under test)."""
    dt = np.dtype(dt)
    return np.dtype([(n, dt.fields[n][0]) for n in dt.names])


def to_shape(a):
    """Same field names and element types, but another length of the array field."""
    dt = [(d if d[0][1] != "w" else (d[0], d[1], (3,))) for d in dtypes()[0]]
    x = np.zeros(len(a), dtype=dt)
    for n in ("time", "endtime", "v0"):
        x[n] = a[n]
    return x


def to_bad(a):
    _, b = dtypes()
    x = np.zeros(len(a), dtype=b)
    x["time"] = a["time"]
    x["endtime"] = a["endtime"]
    x["v0"] = a["v0"]
    return x


def direct_chunk(plugin, data, start, end, data_type, dtype=None):
    return strax.Chunk(start=start, end=end, run_id=plugin._run_id, data_kind=plugin.data_kind_for(data_type)
                       if data_type in plugin.provides else "zzkind", data_type=data_type,
                       dtype=dtype if dtype is not None else data.dtype, data=data)


def corrupt(plugin, res, kind, start, end, dt):
    """Apply violation `kind` to the good result `res` (bare array) of output dt covering [start, end)."""
    REACHED["n"] += 1
    if kind == "dtype_bare":
        return to_bad(res)
    if kind == "dtype_bare_empty":
        # "found nothing" answered with an empty array of another dtype
        return to_bad(res[:0])
    if kind == "dtype_chunk_empty":
        bad = to_bad(res[:0])
        return direct_chunk(plugin, bad, start, end, dt, dtype=bad.dtype)
    if kind == "dtype_chunk":
        bad = to_bad(res)
        return direct_chunk(plugin, bad, start, end, dt, dtype=bad.dtype)
    if kind == "dtype_chunk_declared":
        # chunk claims the declared dtype but carries other data
        return direct_chunk(plugin, to_bad(res), start, end, dt, dtype=plugin.dtype_for(dt))
    if kind == "dtype_shape":
        return to_shape(res)
    if kind == "dtype_shape_chunk":
        bad = to_shape(res)
        return direct_chunk(plugin, bad, start, end, dt, dtype=bad.dtype)
    if kind == "dtype_selfchunk":
        return plugin.chunk(start=start, end=end, data=to_bad(res), data_type=dt)
    if kind == "late_row":
        r = res.copy() if len(res) else good_arr([(start, end + 3, 99)])
        r["endtime"][-1] = end + 3
        return r
    if kind == "late_row_inner":
        # a row that is NOT the last one ends after the chunk (rows are sorted by start time only)
        if len(res) >= 2:
            r = res.copy()
            r["endtime"][0] = end + 3
            return r
        r = good_arr([(start, end + 3, 98), (start, min(end, start + 1), 99)])
        return r
    if kind == "early_row":
        r = res.copy() if len(res) else good_arr([(max(0, start - 2), end, 99)])
        r["time"][0] = max(0, start - 2) if start > 0 else 0
        if start == 0:
            # cannot start before 0: make it end late instead so that the fault stays a fault
            r["endtime"][-1] = end + 3
        return r
    if kind == "label":
        return direct_chunk(plugin, res, start, end, "zzz")
    if kind == "sibling_label":
        # multi-output: the chunk delivered for one output carries the label of its sibling output
        return direct_chunk(plugin, res, start, end, "vicb")
    if kind == "sibling_chunk":
        # ... and the sibling's (different) dtype: a valid chunk of the sibling passed off as this output
        bad = to_bad(res)
        return direct_chunk(plugin, bad, start, end, "vicb", dtype=bad.dtype)
    if kind == "gap":
        return plugin.chunk(start=start + 1, end=end, data=res[res["time"] >= start + 1], data_type=dt)
    if kind == "overlap":
        return plugin.chunk(start=max(0, start - 1), end=end, data=res, data_type=dt)
    raise ValueError(kind)


def make_plugins(case):
    """Source 'ev' + victim plugin of case['pkind'] providing 'vic' (or vica/vicb)."""
    g, _ = dtypes()
    pk, vk, at = case["pkind"], case["vkind"], case["at"]
    cuts = LAYOUTS[case["layout"]]

    class Ev(strax.Plugin):
        provides = "ev"
        depends_on = ()
        dtype = g
        data_kind = "ev"
        rechunk_on_save = False

        def source_finished(self):
            return True

        def _ranges(self):
            rs = list(zip(cuts[:-1], cuts[1:]))
            if pk == "source" and vk in ("gap_zero", "overlap_zero"):
                # a discontinuity with a zero-duration chunk sitting right behind it: [.., T) [T+1, T+1) [T+1, ..)
                lo, hi = rs[at]
                s = lo + 1 if vk == "gap_zero" else max(0, lo - 1)
                rs[at:at + 1] = [(s, s), (s, hi)]
            return rs

        def is_ready(self, chunk_i):
            return chunk_i < len(self._ranges())

        def compute(self, chunk_i):
            a = good_arr(ROWS)
            lo, hi = self._ranges()[chunk_i]
            res = a[(a["time"] >= lo) & (a["endtime"] <= hi)]
            if lo == hi:
                res = res[:0]
            if pk == "source" and vk in ("gap_zero", "overlap_zero"):
                if chunk_i == at:
                    REACHED["n"] += 1
                return self.chunk(start=lo, end=hi, data=res)
            if pk == "source" and chunk_i == at:
                out = corrupt(self, res, vk, lo, hi, "ev")
                if isinstance(out, np.ndarray):
                    return self.chunk(start=lo, end=hi, data=out)
                return out
            return self.chunk(start=lo, end=hi, data=res)

    if pk == "source":
        return [Ev], "ev"

    calls = {"n": 0}

    def maybe(plugin, res, start, end, dt="vic"):
        i = calls["n"]
        calls["n"] += 1
        if i == at:
            return corrupt(plugin, res, vk, start, end, dt)
        return res

    if pk == "ordinary":
        class Vic(strax.Plugin):
            provides = "vic"
            depends_on = ("ev",)
            dtype = g
            data_kind = "ev"
            rechunk_on_save = False

            def compute(self, ev, start, end):
                r = ev.copy()
                r["v0"] += 1
                return maybe(self, r, start, end)
    elif pk == "multi":
        class Vic(strax.Plugin):
            provides = ("vic", "vicb")
            depends_on = ("ev",)
            dtype = dict(vic=g, vicb=dtypes()[1] if vk == "sibling_chunk" else g)
            data_kind = dict(vic="ev", vicb="vicb")
            rechunk_on_save = False
            save_when = immutabledict(vic=strax.SaveWhen.ALWAYS, vicb=strax.SaveWhen.ALWAYS)

            def compute(self, ev, start, end):
                r = ev.copy()
                i = calls["n"]
                if vk == "nondict":
                    calls["n"] += 1
                    if i == at:
                        REACHED["n"] += 1
                        return r
                    return dict(vic=r, vicb=r[r["v0"] % 2 == 0])
                rb = r[r["v0"] % 2 == 0]
                return dict(vic=maybe(self, r, start, end), vicb=to_bad(rb) if vk == "sibling_chunk" else rb)
    elif pk == "down":
        class Vic(strax.DownChunkingPlugin):
            provides = "vic"
            depends_on = ("ev",)
            dtype = g
            data_kind = "ev"
            rechunk_on_save = False

            def compute(self, ev, start, end):
                i = calls["n"]
                calls["n"] += 1
                if i == at and vk == "nongen":
                    REACHED["n"] += 1
                    return ev  # not a generator
                return self._gen(ev, start, end, i)

            def _gen(self, ev, start, end, i):
                if i == at and vk == "nonchunk":
                    REACHED["n"] += 1
                    yield ev
                    return
                # two pieces cut at the first legal inner point
                cut = None
                mx = start
                for k in range(len(ev)):
                    if k and ev["time"][k] >= mx and start < mx < end:
                        cut = (int(mx), k)
                        break
                    mx = max(mx, int(ev["endtime"][k]))
                if cut is None:
                    pieces = [(start, end, ev)]
                else:
                    pieces = [(start, cut[0], ev[: cut[1]]), (cut[0], end, ev[cut[1]:])]
                for j, (s, e, d) in enumerate(pieces):
                    if i == at and j == len(pieces) - 1 and vk in ("gap_zero", "overlap_zero"):
                        REACHED["n"] += 1
                        s2 = s + 1 if vk == "gap_zero" else max(0, s - 1)
                        yield self.chunk(start=s2, end=s2, data=d[:0])
                        yield self.chunk(start=s2, end=e, data=d[d["time"] >= s2])
                    elif i == at and j == len(pieces) - 1:
                        out = corrupt(self, d, vk, s, e, "vic")
                        if isinstance(out, np.ndarray):
                            out = self.chunk(start=s, end=e, data=out)
                        yield out
                    else:
                        yield self.chunk(start=s, end=e, data=d)
    elif pk == "loop":
        class Th(strax.Plugin):
            provides = "th"
            depends_on = ("ev",)
            dtype = strax.time_fields + [(("value field v1", "v1"), np.int64)]
            data_kind = "th"
            rechunk_on_save = False

            def compute(self, ev):
                r = np.zeros(len(ev), dtype=self.dtype)
                r["time"] = ev["time"]
                r["endtime"] = ev["endtime"]
                r["v1"] = ev["v0"]
                return r

        class Vic(strax.LoopPlugin):
            provides = "vic"
            depends_on = ("ev", "th")
            dtype = g
            data_kind = "ev"
            rechunk_on_save = False
            loop_over = "ev"

            def compute(self, ev, th, start, end):
                r = super().compute(ev=ev, th=th)
                return maybe(self, r, start, end)

            def compute_loop(self, e, th):
                return dict(time=e["time"], endtime=e["endtime"], v0=int(e["v0"]) + len(th))
        return [Ev, Th, Vic], "vic"
    elif pk == "cut":
        class Vic(strax.CutPlugin):
            provides = "vic"
            depends_on = ("ev",)
            rechunk_on_save = False
            cut_name = "vic"

            def compute(self, ev, start, end):
                r = super().compute(ev=ev)
                i = calls["n"]
                calls["n"] += 1
                if i != at:
                    return r
                REACHED["n"] += 1
                if vk == "dtype_bare":
                    return to_bad(good_arr([(int(t), int(e), 1) for t, e in zip(r["time"], r["endtime"])]))
                if vk == "dtype_bare_empty":
                    return to_bad(good_arr([]))
                if vk == "late_row":
                    if not len(r):
                        r = np.zeros(1, dtype=r.dtype)
                        r["time"] = start
                    r["endtime"][-1] = end + 3
                    return r
                raise ValueError(vk)

            def cut_by(self, ev):
                return ev["v0"] > 2
    elif pk == "window":
        class Vic(strax.OverlapWindowPlugin):
            provides = "vic"
            depends_on = ("ev",)
            dtype = g
            data_kind = "vick"
            rechunk_on_save = False

            def get_window_size(self):
                return 2

            def compute(self, ev, start, end):
                r = ev.copy()
                r["v0"] += 7
                return maybe(self, r, start, end)
    else:
        raise ValueError(pk)
    return [Ev, Vic], "vic"


APPLICABLE = {
    "source": ["dtype_chunk", "dtype_chunk_empty", "dtype_chunk_declared", "dtype_selfchunk", "dtype_shape_chunk", "late_row", "late_row_inner", "early_row", "label", "gap", "overlap",
               "gap_zero", "overlap_zero"],
    "ordinary": ["dtype_bare", "dtype_bare_empty", "dtype_chunk_empty", "dtype_chunk", "dtype_chunk_declared", "dtype_selfchunk", "dtype_shape", "dtype_shape_chunk", "late_row", "late_row_inner", "early_row", "label"],
    "multi": ["dtype_bare", "dtype_bare_empty", "dtype_chunk", "dtype_chunk_declared", "dtype_shape", "late_row", "late_row_inner", "label", "nondict",
              "sibling_label", "sibling_chunk"],
    "down": ["dtype_chunk", "dtype_chunk_declared", "dtype_selfchunk", "label", "late_row", "late_row_inner", "gap", "overlap", "nongen", "nonchunk",
             "gap_zero", "overlap_zero"],
    "loop": ["dtype_bare", "dtype_bare_empty", "late_row", "late_row_inner", "early_row", "dtype_chunk_declared"],
    "cut": ["dtype_bare", "dtype_bare_empty", "late_row"],
    "window": ["dtype_bare", "dtype_bare_empty", "late_row", "late_row_inner", "dtype_chunk_declared"],
}


def contract_errors(chunk, target, declared, prev_end):
    errs = []
    if plain(chunk.data.dtype) != plain(declared):
        errs.append(f"yielded data of dtype {chunk.data.dtype}, declared {declared}")
    if chunk.data_type != target:
        errs.append(f"yielded chunk labelled {chunk.data_type}, requested {target}")
    if len(chunk.data) and "time" in chunk.data.dtype.names:
        if chunk.data["time"].min() < chunk.start or strax.endtime(chunk.data).max() > chunk.end:
            errs.append(f"yielded rows outside the chunk [{chunk.start},{chunk.end})")
    if prev_end is not None and chunk.start != prev_end:
        errs.append(f"yielded chunk starts at {chunk.start}, previous ended at {prev_end}")
    return errs


def run_case(case):
    viol, cnt = [], {}

    def add(kind, what, exc=None):
        sig = {"kind": kind, "pkind": case["pkind"], "vkind": case["vkind"]}
        if exc is not None:
            sig.update(common.exc_sig(exc))
        viol.append({"sig": sig, "what": f"{kind}: {what}"[:600], "case": case})

    REACHED["n"] = 0
    classes, target = make_plugins(case)
    d = hrun.mktemp("c12-") if case["storage"] else None
    try:
        opts = dict(allow_lazy=case.get("lazy", True), max_messages=20, timeout=30)
        st = strax.Context(storage=[strax.DataDirectory(d)] if d else [], register=classes,
                           processors=[case["processor"]], **opts)
        declared = np.dtype(dtypes()[0]) if case["pkind"] != "cut" else None
        yielded = []
        exc = None
        try:
            with common.quiet():
                it = st.get_iter("0", target, progress_bar=False)
                for c in it:
                    yielded.append(c)
        except Exception as e:  # noqa: BLE001
            exc = e
        if exc is not None and "Timeout" in type(exc).__name__ and "Mailbox" in type(exc).__name__:
            return viol, cnt, False, [f"timeout: {exc}"]
        reached = REACHED["n"] > 0
        if reached:
            cnt["faults_reached"] = 1
        if exc is None:
            if reached:
                add("accepted", f"violation {case['vkind']} in {case['pkind']} plugin at call {case['at']}: "
                                f"get_iter returned normally with {len(yielded)} chunks")
        else:
            cnt["rejected"] = 1
        # nothing that violates the declared contract may be handed to the user
        if declared is None:
            declared = st._get_plugins((target,), "0")[target].dtype_for(target)
        prev = None
        cnt["yield_checks"] = len(yielded)
        for c in yielded:
            for e in contract_errors(c, target, declared, prev):
                add("yielded-invalid", e)
            prev = c.end
        # storage: the offending data type must not be available, or if it is, it must be valid
        if d:
            cnt["storage_checks"] = 1
            st2 = strax.Context(storage=[strax.DataDirectory(d)], register=classes, processors=["single_thread"],
                                forbid_creation_of=("*",))
            for dt in ([target] + (["vicb"] if case["pkind"] == "multi" else [])):
                if st2.is_stored("0", dt) and reached:
                    try:
                        with common.quiet():
                            chunks = list(st2.get_iter("0", dt, progress_bar=False))
                        dec = st2._get_plugins((dt,), "0")[dt].dtype_for(dt)
                        errs = []
                        p = None
                        for c in chunks:
                            errs += contract_errors(c, dt, dec, p)
                            p = c.end
                        if errs:
                            add("stored-invalid", f"{dt} is reported stored and violates its contract: {errs[:2]}")
                        elif exc is None or dt == target:
                            add("stored-after-violation", f"{dt} is stored as valid although the run produced a "
                                                          f"contract violation ({'accepted' if exc is None else 'raised'})")
                    except Exception as e:  # noqa: BLE001
                        add("stored-unloadable", f"{dt} is reported stored but loading failed: {e!r}", e)
    finally:
        if d:
            hrun.rm(d)
    return viol, cnt, REACHED["n"] > 0, []


def all_cases():
    out = []
    for pk, vks in APPLICABLE.items():
        for vk in vks:
            for layout, cuts in LAYOUTS.items():
                n = len(cuts) - 1
                for at in sorted({0, n // 2, n - 1}):
                    if vk in ("gap", "overlap", "gap_zero", "overlap_zero") and at == 0:
                        continue  # the first chunk of a run has no predecessor: not a violation
                    for proc in ("single_thread", "threaded_mailbox"):
                        for storage in (True, False):
                            out.append({"pkind": pk, "vkind": vk, "layout": layout, "at": at, "processor": proc,
                                        "storage": storage, "lazy": (at + len(vk)) % 2 == 0})
    return out


def units(tier, seed):
    cases = all_cases()
    if tier == "quick":
        cases = [c for i, c in enumerate(cases) if c["storage"] or i % 3 == 0]
    n = 16
    return [{"name": f"faults-{k}", "shard": k, "nshards": n, "tier": tier} for k in range(n)]


def run_unit(u):
    cases = all_cases()
    if u["tier"] == "quick":
        cases = [c for i, c in enumerate(cases) if c["storage"] or i % 3 == 0]
    res = {"evaluations": 0, "distinct": 0, "counters": {}, "samples": [], "violations": [], "inconclusive": []}
    for i, case in enumerate(cases):
        if i % u["nshards"] != u["shard"]:
            continue
        viol, cnt, nt, inc = run_case(case)
        res["evaluations"] += 1
        if nt:
            res["distinct"] += 1
        for k, v in cnt.items():
            res["counters"][k] = res["counters"].get(k, 0) + v
        res["violations"].extend(viol[:2])
        res["inconclusive"].extend(inc)
        if not res["samples"]:
            res["samples"].append(case)
    return res


def replay(case):
    viol, cnt, nt, inc = run_case(case)
    return viol


def _exercise():
    for c in all_cases()[::9]:
        try:
            run_case(c)
        except Exception:  # noqa: BLE001
            pass


def warm():
    _exercise()


def prefork():
    _exercise()
