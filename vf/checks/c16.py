"""C16 Copying, rechunking, recompressing and per-chunk merging preserve the data.

Stored layouts are produced through the real pipeline, then transformed with the real
tools: Context.copy_to_frontend, the stand-alone strax.rechunker (serial / thread /
process; new location or in place), rechunk_on_load (both processors, with a worker
pool), and per-chunk processing followed by merge_per_chunk_storage. Oracle: the
destination loads (fresh context) to exactly the source rows; destination metadata is
consistent with the new files (vf.mon.storagemd); the source tree is byte-identical
unless replacement was requested; per-chunk + merge == direct make.
"""
import hashlib
import itertools
import os
import random

import numpy as np

from vf import common

common.setup_env()
strax = common.import_strax()
from vf.checks.meta import META  # noqa: E402
from vf.harness import gen, oracle, run as hrun  # noqa: E402
from vf.sched import coop, shims  # noqa: E402
from vf.mon import chunklaws as cl, storagemd  # noqa: E402

PROPERTY = "C16"
LEVEL = "exploration"
TECHNIQUE = META["C16"]["technique"]
RULE = (
    "case = (stored layout: rows on a coarse grid with gaps above/below the split threshold, chunking, "
    "compressor) x operation in {copy_to_frontend(compressor, rechunk, size), rechunker(compressor x target size "
    "x serial/thread/process x replace/new location), rechunk_on_load(processor, pool), per-chunk build with a "
    "grouping of dependency chunks + merge_per_chunk_storage}; seeded random, all groupings of <= 5 chunks "
    "enumerated; distinct by hash; non-trivial = >= 1 row and >= 2 stored chunks"
)
ASSUMPTIONS = [
    "the stand-alone rechunker is driven with its default progress bar (progress_bar=False is broken in the "
    "pinned tree and outside the property's quantifier)",
]
REQUIRED = {"copies": 60, "rechunker_runs": 60, "rechunk_on_load_runs": 40, "per_chunk_merges": 30,
            "metadata_checks": 100, "source_intact_checks": 100, "rows_compared": 1000, "dry_loads": 100,
            "scheduled_rechunker_runs": 100, "scheduling_points": 10000, "multi_target_copies": 15,
            "per_chunk_refusals": 30, "faulted_rechunks": 50}
UNIT_TIMEOUT = 1500
COMP = ("blosc", "zstd", "lz4", "bz2")


def tree_hash(d):
    h = hashlib.sha1()
    for root, dirs, files in sorted(os.walk(d)):
        dirs.sort()
        for f in sorted(files):
            p = os.path.join(root, f)
            h.update(os.path.relpath(p, d).encode())
            with open(p, "rb") as fh:
                h.update(fh.read())
    return h.hexdigest()


def gen_layout(seed, idx):
    rng = random.Random(f"{seed}:c16:{idx}")
    unit = 400
    t0 = rng.choice([0, 800])
    rows = []
    t = t0
    for i in range(rng.randint(2, 10)):
        t += rng.choice([0, 1, 2, 3, 5]) * unit
        ln = rng.choice([1, 2, 3]) * unit
        rows.append((t, t + ln, i + 1))
        if rng.random() < 0.75:
            t += ln
    t1 = max(r[1] for r in rows) + rng.choice([0, 2]) * unit
    cuts = gen.gen_cuts(rng, rows, t0, t1, unit, max_inner=4, allow_zero=rng.random() < 0.3)
    return {"rows": rows, "cuts": cuts, "compressor": rng.choice(COMP), "seed": rng.randint(0, 10 ** 6)}


def spec_for(lay, rechunk_on_load=False, src_rows=2, takes_chunk_i=False):
    src = {"name": "ev", "kind": "ev", "rows": lay["rows"], "cuts": lay["cuts"], "compressor": lay["compressor"],
           "rechunk_on_save": False}
    r1 = {"name": "r1", "type": "row", "deps": ["ev"], "field": "v1", "rechunk_on_save": False,
          "compressor": lay["compressor"]}
    if takes_chunk_i:
        r1["takes_chunk_i"] = True
    if rechunk_on_load:
        src["rechunk_on_load"] = True
        src["chunk_source_size_mb"] = (src_rows * 24 + 12) / 1e6
    return {"sources": [src], "plugins": [r1]}


def load_dir(spec, d, dt):
    st = hrun.make_context(spec, d, {"processor": "single_thread"}, forbid_creation_of=("*",))
    with common.quiet():
        chunks = list(st.get_iter("0", dt, progress_bar=False))
    return chunks


def dir_of(d, dt):
    for name in os.listdir(d):
        parts = name.split("-")
        if len(parts) == 3 and parts[1] == dt and not name.endswith("_temp"):
            return os.path.join(d, name)
    return None


def check_dest(add, spec, d, dt, want, cnt, what):
    try:
        chunks = load_dir(spec, d, dt)
    except Exception as e:  # noqa: BLE001
        add("dest-unloadable", f"{what}: destination does not load: {e!r}", e)
        return
    got = np.concatenate([c.data for c in chunks]) if chunks else want[:0]
    cnt["rows_compared"] = cnt.get("rows_compared", 0) + len(got)
    if not oracle.rows_equal(got, want):
        add("rows", f"{what}: destination rows {got.tolist()} != source rows {want.tolist()}")
    if any(a.end != b.start for a, b in zip(chunks[:-1], chunks[1:])):
        add("contiguity", f"{what}: destination chunks not contiguous")
    for c in chunks:
        for e in cl.chunk_errors(c):
            add("chunk", f"{what}: {e}")
    key = str(hrun.make_context(spec, d, {"processor": "single_thread"}).key_for("0", dt))
    dd = os.path.join(d, key) if os.path.isdir(os.path.join(d, key)) else None
    cnt["metadata_checks"] = cnt.get("metadata_checks", 0) + 1
    if dd is None:
        add("metadata", f"{what}: no destination directory for {dt}")
    else:
        for e in storagemd.metadata_errors(dd, chunks, run_id="0")[:2]:
            add("metadata", f"{what}: {e}")
        # the context-free reader must agree with the loader (all chunks, and a chunk subset)
        try:
            with common.quiet():
                dry = strax.dry_load_files(dd, disable=True)
            cnt["dry_loads"] = cnt.get("dry_loads", 0) + 1
            if not (len(dry) == len(want) and np.asarray(dry).tobytes() == want.tobytes()):
                add("dry-load", f"{what}: dry_load_files returns {np.asarray(dry).tolist()} != {want.tolist()}")
            if len(chunks) >= 2:
                sub = [0, len(chunks) - 1]
                with common.quiet():
                    dry2 = strax.dry_load_files(dd, chunk_numbers=sub, disable=True)
                w2 = np.concatenate([chunks[i].data for i in sub])
                if not (len(dry2) == len(w2) and np.asarray(dry2).tobytes() == w2.tobytes()):
                    add("dry-load", f"{what}: dry_load_files(chunk_numbers={sub}) returns {np.asarray(dry2).tolist()} != {w2.tolist()}")
        except Exception as e:  # noqa: BLE001
            add("dry-load", f"{what}: dry_load_files failed: {e!r}", e)


def run_case(case):
    viol, cnt = [], {}
    lay = case["layout"]
    op = case["op"]

    def add(kind, text, exc=None):
        sig = {"kind": kind, "op": op["name"]}
        for k in ("parallel", "replace", "rechunk", "processor", "pool"):
            if k in op:
                sig[k] = op[k]
        if exc is not None:
            sig.update(common.exc_sig(exc))
        if len(viol) < 6:
            viol.append({"sig": sig, "what": f"{kind}: {text}"[:700], "case": case})

    root = hrun.mktemp("c16-")
    d1, d2 = os.path.join(root, "a"), os.path.join(root, "b")
    try:
        spec = spec_for(lay, rechunk_on_load=op["name"] == "rechunk_on_load", src_rows=op.get("src_rows", 2),
                        takes_chunk_i=bool(op.get("takes_chunk_i")))
        out = oracle.whole_run(spec)
        cfg1 = {"processor": "single_thread", "max_messages": 30, "timeout": 60}
        st = hrun.make_context(spec, d1, cfg1)
        with common.quiet():
            st.make("0", "ev", progress_bar=False)
        src_dir = dir_of(d1, "ev")
        before = tree_hash(d1)
        if op["name"] == "copy":
            nt = op.get("ntargets", 1)
            dests = [d2] + [os.path.join(root, f"b{j}") for j in range(1, nt)]
            st2 = hrun.make_context(spec, [strax.DataDirectory(d1)] + [strax.DataDirectory(x) for x in dests], cfg1)
            try:
                with common.quiet():
                    # one explicit target, or (None) every frontend that does not have the data yet
                    st2.copy_to_frontend("0", "ev", target_frontend_id=1 if nt == 1 else None, target_compressor=op["compressor"],
                                         rechunk=op["rechunk"], rechunk_to_mb=(op["target_rows"] * 24 + 12) / 1e6)
                cnt["copies"] = 1
                if nt > 1:
                    cnt["multi_target_copies"] = 1
            except Exception as e:  # noqa: BLE001
                add("exception", f"copy_to_frontend failed: {e!r}", e)
                return viol, cnt
            for j, dd in enumerate(dests):
                check_dest(add, spec, dd, "ev", out["ev"], cnt, f"copy_to_frontend (target {j + 1} of {nt})")
            cnt["source_intact_checks"] = 1
            if tree_hash(d1) != before:
                add("source-modified", "copy_to_frontend changed the source frontend")
        elif op["name"] == "rechunker":
            os.makedirs(d2, exist_ok=True)
            kw = dict(source_directory=src_dir, dest_directory=None if op["replace"] else d2,
                      replace=op["replace"], compressor=op["compressor"],
                      target_size_mb=(op["target_rows"] * 24 + 12) / 1e6 if op["target_rows"] else None,
                      rechunk=op["rechunk"], max_workers=op.get("workers", 2), _timeout=120)
            try:
                with common.quiet():
                    if op["parallel"] == "sched":
                        # thread mode with the pool workers, the mailbox threads and the saver scheduled
                        # adversarially (cooperative scheduler, seeded)
                        import strax.storage.file_rechunker as fr

                        chooser = coop.RandomChooser(op["sseed"]) if op["sseed"] % 3 else coop.PCTChooser(op["sseed"], depth=3, horizon=200)
                        sched = coop.Sched(chooser=chooser, max_steps=100000)
                        old_tpe = fr.ThreadPoolExecutor
                        fr.ThreadPoolExecutor = coop.Executor
                        try:
                            with shims.coop_pipeline(sched):
                                sched.register_main()
                                strax.rechunker(parallel="thread", **kw)
                        finally:
                            fr.ThreadPoolExecutor = old_tpe
                        cnt["scheduled_rechunker_runs"] = 1
                        cnt["scheduling_points"] = sched.steps
                        if sched.clock > 0:
                            add("virtual-timeout", f"the scheduled rechunker needed a timeout to make progress (clock {sched.clock})")
                    else:
                        strax.rechunker(parallel=op["parallel"], **kw)
                cnt["rechunker_runs"] = 1
            except coop.Deadlock as e:
                add("deadlock", f"scheduled rechunker deadlocked: {e}"[:400])
                return viol, cnt
            except Exception as e:  # noqa: BLE001
                add("exception", f"rechunker failed: {e!r}", e)
                return viol, cnt
            if op["replace"]:
                check_dest(add, spec, d1, "ev", out["ev"], cnt, "rechunker(replace)")
            else:
                check_dest(add, spec, d2, "ev", out["ev"], cnt, "rechunker(new location)")
                cnt["source_intact_checks"] = 1
                if tree_hash(d1) != before:
                    add("source-modified", "rechunker without replace changed the source directory")
        elif op["name"] == "rechunk_on_load":
            cfg = {"processor": op["processor"], "max_messages": 30, "timeout": 60, "allow_lazy": op.get("lazy", True)}
            st3 = hrun.make_context(spec, d1, cfg)
            try:
                with common.quiet():
                    got = st3.get_array("0", "r1", progress_bar=False, max_workers=2 if op["pool"] else None)
                    got_ev = st3.get_array("0", "ev", progress_bar=False, max_workers=2 if op["pool"] else None)
                cnt["rechunk_on_load_runs"] = 1
            except Exception as e:  # noqa: BLE001
                if "Timeout" in type(e).__name__:
                    return viol, cnt
                add("exception", f"loading with rechunk_on_load failed: {e!r}", e)
                return viol, cnt
            cnt["rows_compared"] = len(got) + len(got_ev)
            if not oracle.rows_equal(got, out["r1"]) or not oracle.rows_equal(got_ev, out["ev"]):
                add("rows", f"rechunk_on_load changed the rows: {got.tolist()} vs {out['r1'].tolist()}")
        elif op["name"] == "per_chunk":
            nch = len(st.get_metadata("0", "ev")["chunks"])
            groups = op["groups"](nch) if callable(op["groups"]) else op["groups"]
            try:
                with common.quiet():
                    for g in groups:
                        st.make("0", "r1", chunk_number={"ev": list(g)}, progress_bar=False)
                    st.merge_per_chunk_storage("0", "r1", "ev", chunk_number_group=[list(g) for g in groups], rechunk=op["rechunk"])
                cnt["per_chunk_merges"] = 1
            except Exception as e:  # noqa: BLE001
                add("exception", f"per-chunk build / merge failed for groups {groups}: {e!r}", e)
                return viol, cnt
            st5 = hrun.make_context(spec, d1, cfg1)
            if not st5.is_stored("0", "r1"):
                add("not-stored", f"after merge_per_chunk_storage r1 is not stored (groups {groups})")
            else:
                check_dest(add, spec, d1, "r1", out["r1"], cnt, f"per-chunk merge {groups}")
        elif op["name"] == "rechunker_fault":
            # the rewrite fails half way (I/O error on the j-th chunk write, serial mode): the caller must get the error
            # and the source must still be there and load to its rows - also when replacement was requested
            os.makedirs(d2, exist_ok=True)
            orig_save = strax.save_file
            n = {"i": 0}

            def failing_save(f, data, compressor="zstd"):
                n["i"] += 1
                if n["i"] == op["fail_at"]:
                    raise OSError(28, "injected: no space left on device")
                return orig_save(f, data, compressor)

            strax.save_file = failing_save
            raised = None
            try:
                with common.quiet():
                    strax.rechunker(source_directory=src_dir, dest_directory=None if op["replace"] else d2, replace=op["replace"],
                                    compressor=op["compressor"], target_size_mb=(op["target_rows"] * 24 + 12) / 1e6,
                                    rechunk=True, parallel=False, _timeout=120)
            except Exception as e:  # noqa: BLE001
                raised = e
            finally:
                strax.save_file = orig_save
            cnt["faulted_rechunks"] = 1
            if n["i"] >= op["fail_at"]:
                if raised is None:
                    add("swallowed", f"the {op['fail_at']}. chunk write of the rechunker failed but rechunker() returned normally")
                check_dest(add, spec, d1, "ev", out["ev"], cnt, "source after a failed rechunker run")
                if not op["replace"] and tree_hash(d1) != before:
                    add("source-modified", "a failed rechunker run (no replacement requested) changed the source directory")
        elif op["name"] == "per_chunk_window":
            # a plugin that needs neighbours across chunk borders cannot be built chunk by chunk: the request has to
            # be refused (for every window shape), or else the merged result has to equal the directly-made data
            specw = dict(spec, plugins=spec["plugins"] + [{"name": "w1", "type": "window", "deps": ["ev"], "window": list(op["window"]),
                                                            "rechunk_on_save": False}])
            outw = oracle.whole_run(specw)
            stw = hrun.make_context(specw, d1, cfg1)
            nch = len(stw.get_metadata("0", "ev")["chunks"])
            accepted = []
            for i in range(nch):
                try:
                    with common.quiet():
                        stw.make("0", "w1", chunk_number={"ev": [i]}, progress_bar=False)
                    accepted.append(i)
                except ValueError:
                    cnt["per_chunk_refusals"] = cnt.get("per_chunk_refusals", 0) + 1
                except Exception as e:  # noqa: BLE001
                    add("exception", f"per-chunk request for an overlap-window plugin failed with {e!r} (a refusal is a ValueError)", e)
                    return viol, cnt
            if accepted and nch > 1:
                try:
                    with common.quiet():
                        stw.merge_per_chunk_storage("0", "w1", "ev", chunk_number_group=[[i] for i in range(nch)], rechunk=False)
                    got = load_dir(specw, d1, "w1")
                    gotrows = np.concatenate([c_.data for c_ in got])
                    if not oracle.rows_equal(gotrows, outw["w1"]):
                        add("rows", f"overlap-window plugin (window {op['window']}) was built chunk by chunk {accepted}; merged rows "
                                    f"{gotrows.tolist()} != directly made {outw['w1'].tolist()}")
                except Exception as e:  # noqa: BLE001
                    add("exception", f"overlap-window plugin was accepted per chunk {accepted} but merging / loading failed: {e!r}", e)
    finally:
        hrun.rm(root)
    return viol, cnt


def consecutive_partitions(n):
    """All partitions of range(n) into consecutive groups."""
    out = []
    for mask in itertools.product((0, 1), repeat=max(0, n - 1)):
        groups, cur = [], [0]
        for i, m in enumerate(mask):
            if m:
                groups.append(cur)
                cur = [i + 1]
            else:
                cur.append(i + 1)
        groups.append(cur)
        out.append(groups)
    return out


def gen_cases(seed, lo, hi, tier):
    q = tier == "quick"
    for idx in range(lo, hi):
        lay = gen_layout(seed, idx)
        rng = random.Random(lay["seed"])
        nchunks = len(lay["cuts"]) - 1
        ops = []
        ops.append({"name": "copy", "compressor": rng.choice(COMP + (None,)), "rechunk": rng.random() < 0.6,
                    "target_rows": rng.choice([1, 2, 4, 100]), "ntargets": rng.choice([1, 1, 2, 3])})
        ops.append({"name": "rechunker", "compressor": rng.choice(COMP + (None,)), "rechunk": rng.random() < 0.7,
                    "target_rows": rng.choice([None, 1, 3, 100]), "replace": rng.random() < 0.4,
                    "parallel": rng.choice([False, False, "thread"] + ([] if (q and idx % 8) else ["process"]))})
        for _ in range(2 if q else 4):
            # small source sizes: one stored chunk then needs several cuts
            ops.append({"name": "rechunk_on_load", "processor": rng.choice(["single_thread", "threaded_mailbox"]),
                        "pool": rng.random() < 0.5, "src_rows": rng.choice([1, 1, 2, 3]), "lazy": rng.random() < 0.5})
            if ops[-1]["processor"] == "single_thread":
                ops[-1]["pool"] = False
        parts = consecutive_partitions(nchunks) if nchunks <= 5 else None
        if parts is not None:
            chosen = parts if not q else rng.sample(parts, min(2, len(parts)))
            for g in chosen:
                ops.append({"name": "per_chunk", "groups": g, "rechunk": rng.random() < 0.5, "takes_chunk_i": rng.random() < 0.5})
        ops.append({"name": "rechunker_fault", "compressor": rng.choice(COMP), "target_rows": rng.choice([1, 2, 3]),
                    "replace": rng.random() < 0.6, "fail_at": rng.choice([1, 2, 3])})
        u_ = 400  # the time unit of the layouts
        ops.append({"name": "per_chunk_window", "window": rng.choice([(0, 3 * u_), (3 * u_, 0), (2 * u_, 2 * u_), (0, 0)])})
        for k in range(4 if q else 8):
            ops.append({"name": "rechunker", "compressor": rng.choice(COMP + (None,)), "rechunk": rng.random() < 0.5,
                        "target_rows": rng.choice([None, 1, 3, 100]), "replace": rng.random() < 0.4,
                        "parallel": "sched", "workers": rng.choice([1, 2, 2, 3, 3]), "sseed": rng.randint(0, 10 ** 6)})
        for op in ops:
            yield {"layout": lay, "op": op}


def units(tier, seed):
    q = tier == "quick"
    n = 16 if q else 64
    per = 6 if q else 40
    return [{"name": f"ops-{k}", "seed": seed, "lo": k * per, "hi": (k + 1) * per, "tier": tier} for k in range(n)]


def run_unit(u):
    cl.install(strax)
    res = {"evaluations": 0, "hashes": [], "counters": {}, "samples": [], "violations": [], "inconclusive": []}
    for case in gen_cases(u["seed"], u["lo"], u["hi"], u["tier"]):
        viol, cnt = run_case(case)
        res["evaluations"] += 1
        if len(case["layout"]["rows"]) and len(case["layout"]["cuts"]) >= 3:
            res["hashes"].append(common.chash(case))
        for k, v in cnt.items():
            res["counters"][k] = res["counters"].get(k, 0) + v
        if len(res["violations"]) < 25:
            res["violations"].extend(viol[:2])
        if not res["samples"]:
            res["samples"].append(case)
    log, _ = cl.snapshot()
    for entry in log[:3]:
        res["violations"].append({"sig": {"kind": "law", "op": entry["op"]}, "what": f"{entry['what']} :: {entry['detail']}", "case": {}})
    return res


def replay(case):
    cl.install(strax)
    viol, cnt = run_case(case)
    return viol


def _exercise():
    cl.install(strax)
    for case in itertools.islice(gen_cases(4242, 0, 3, "quick"), 12):
        if case["op"].get("parallel") == "process":
            continue
        run_case(case)


def warm():
    hrun.warm_numba()
    _exercise()


def prefork():
    _exercise()
