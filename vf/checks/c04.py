"""C04 A crash or I/O failure never leaves wrong data visible as valid.

Fault enumeration over the observed file-system event sequence. For each configuration
one fault-free `make` is recorded through an audit hook (mkdir, temp-file open, rename,
metadata write, final rename, rmtree ...). Then, once per mutating event k: (a) an
OSError is raised at event k (also on pool worker threads), (b) the process dies just
before event k (forked child, os._exit), and per chunk file (c) the write stops half
way (exception / death). Afterwards a *fresh* context decides: everything reported
stored loads completely and equals the whole-run oracle; everything else is refused
(DataNotAvailable), never partial; an identical retry without cleanup succeeds and
stores correct data (sampled: a second fault during the retry, then another retry);
and a call that returned normally really saved what it had to.
"""
import os
import random
import shutil

import numpy as np

from vf import common

common.setup_env()
strax = common.import_strax()
import strax.io as sio  # noqa: E402

from vf.checks.meta import META  # noqa: E402
from vf.harness import oracle, run as hrun, plugins as hp  # noqa: E402
from vf.mon import fsaudit  # noqa: E402

PROPERTY = "C04"
LEVEL = "fault_enumeration"
TECHNIQUE = META["C04"]["technique"]
RULE = (
    "fault = (configuration, fault kind in {exception at event k, process death before event k, half-written "
    "chunk file then exception, half-written chunk file then death}, k over every mutating file-system event of "
    "the recorded fault-free run (death: also k = N, i.e. after the last)); configuration = graph in {row-wise, "
    "multi-output, overlap-window} x processor x max_workers in {None, 2} x rechunk on/off; every position is "
    "enumerated (distinct by construction); sampled second fault during the retry; non-trivial = the fault fired"
)
ASSUMPTIONS = [
    "a crash is 'the process dies between two system calls' (POSIX rename atomicity; no lost page-cache writes)",
    "faults on creating the storage root are exempt from the no-false-success rule (the frontend may "
    "legitimately declare itself unable to save)",
]
REQUIRED = {"faults_fired": 300, "exception_faults": 100, "death_faults": 100, "midwrite_faults": 20,
            "states_verified": 300, "retries_ok": 300, "fs_events_recorded": 200, "double_faults": 10,
            "inline_faults_fired": 40, "paced_inline_faults_fired": 2}
UNIT_TIMEOUT = 1500

ROWS = [(0, 500, 1), (800, 1200, 2), (3000, 3500, 3), (3600, 4000, 4), (6000, 6400, 5), (9000, 9300, 6)]
CUTS = [0, 2000, 5000, 10000]


def graph(name, rechunk):
    src = {"name": "ev", "kind": "ev", "rows": ROWS, "cuts": CUTS, "rechunk_on_save": rechunk,
           "chunk_target_size_mb": (2 * 24 + 12) / 1e6}
    if name == "row":
        pl = [{"name": "top", "type": "row", "deps": ["ev"], "field": "v1", "rechunk_on_save": rechunk,
               "chunk_target_size_mb": (2 * 24 + 12) / 1e6}]
    elif name == "multi":
        pl = [{"name": "m", "type": "multi", "deps": ["ev"], "save_when": {"ma": "ALWAYS", "mb": "ALWAYS"},
               "rechunk_on_save": {"ma": rechunk, "mb": False}},
              {"name": "top", "type": "row", "deps": ["ma"], "field": "v1", "rechunk_on_save": rechunk}]
    elif name == "window":
        pl = [{"name": "top", "type": "window", "deps": ["ev"], "window": [700, 300], "rechunk_on_save": rechunk}]
    else:
        raise ValueError(name)
    return {"sources": [src], "plugins": pl}


def configs():
    out = []
    for g in ("row", "multi", "window"):
        for proc in ("single_thread", "threaded_mailbox"):
            for mw in (None, 2):
                if proc == "single_thread" and mw:
                    continue
                for rechunk in (False, True):
                    out.append({"graph": g, "processor": proc, "max_workers": mw, "rechunk": rechunk})
    return out


def do_make(spec, d, cfg):
    st = hrun.make_context(spec, d, {"processor": cfg["processor"], "max_messages": 20, "timeout": 120})
    with common.quiet():
        st.make("0", "top", progress_bar=False, max_workers=cfg["max_workers"])


class MidWrite:
    """Patches strax.io._save_file: the j-th chunk write stops half way, then raises or kills the process."""

    def __init__(self, j, kind):
        self.j, self.kind, self.n, self.fired = j, kind, 0, False

    def __enter__(self):
        self.orig = sio._save_file
        me = self

        def _save_file(f, data, compressor="zstd"):
            i = me.n
            me.n += 1
            if i == me.j and not me.fired:
                me.fired = True
                d_comp = sio.COMPRESSORS[compressor]["compress"](data)
                f.write(d_comp[: max(1, len(d_comp) // 2)])
                f.flush()
                if me.kind == "exit":
                    os._exit(77)
                raise fsaudit.InjectedIOError("injected I/O error in the middle of a chunk write")
            return me.orig(f, data, compressor)

        sio._save_file = _save_file
        return self

    def __exit__(self, *a):
        sio._save_file = self.orig


def run_faulted(spec, d, cfg, fault):
    """Run make with the fault armed. Returns (returned_normally, exception, fired)."""
    kind = fault["kind"]
    if kind in ("raise", "exit"):
        if kind == "exit":
            pid = os.fork()
            if pid == 0:
                try:
                    fsaudit.arm(d, fault_at=fault["k"], fault_kind="exit")
                    do_make(spec, d, cfg)
                except BaseException:  # noqa: BLE001
                    os._exit(3)
                os._exit(0)
            _, status = os.waitpid(pid, 0)
            rc = os.waitstatus_to_exitcode(status)
            return rc == 0, None, rc == 77
        fsaudit.arm(d, fault_at=fault["k"], fault_kind="raise")
        try:
            do_make(spec, d, cfg)
            exc = None
        except BaseException as e:  # noqa: BLE001
            exc = e
        ev, fired = fsaudit.disarm()
        fault["event"] = next((e for e in ev if e.get("fault")), None)
        return exc is None, exc, fired
    # mid-write
    if kind == "mid_exit":
        pid = os.fork()
        if pid == 0:
            try:
                with MidWrite(fault["j"], "exit"):
                    do_make(spec, d, cfg)
            except BaseException:  # noqa: BLE001
                os._exit(3)
            os._exit(0)
        _, status = os.waitpid(pid, 0)
        rc = os.waitstatus_to_exitcode(status)
        return rc == 0, None, rc == 77
    with MidWrite(fault["j"], "raise") as mw:
        try:
            do_make(spec, d, cfg)
            exc = None
        except BaseException as e:  # noqa: BLE001
            exc = e
    return exc is None, exc, mw.fired


def must_be_saved(spec):
    out = [s["name"] for s in spec["sources"]]
    for p in spec["plugins"]:
        out += hp.provides_of(p)
    return out


def verify_state(spec, d, out, when):
    """Fresh-context view of the directory. Returns (violations, stored set)."""
    v = []
    stored = set()
    for dt in must_be_saved(spec):
        try:
            is_st = hrun.is_stored(spec, d, dt)
        except Exception as e:  # noqa: BLE001
            v.append(("is-stored-crashed", f"{when}: is_stored({dt}) raised {e!r}", e))
            continue
        if is_st:
            stored.add(dt)
            try:
                got = hrun.load_stored(spec, d, dt)
                if not oracle.rows_equal(got, out[dt]):
                    v.append(("stored-wrong", f"{when}: {dt} is reported stored but loads {got.tolist()} instead of {out[dt].tolist()}", None))
            except Exception as e:  # noqa: BLE001
                v.append(("stored-unloadable", f"{when}: {dt} is reported stored but loading failed: {e!r}", e))
        else:
            try:
                got = hrun.load_stored(spec, d, dt)
                v.append(("partial-visible", f"{when}: {dt} is reported unavailable but get_array returned {len(got)} rows", None))
            except strax.DataNotAvailable:
                pass
            except Exception as e:  # noqa: BLE001
                v.append(("unavailable-wrong-error", f"{when}: {dt} unavailable, but loading raised {e!r} instead of DataNotAvailable", e))
        # the same directory seen through a read-only frontend (a reader sharing the directory) must agree
        try:
            ro = hrun.make_context(spec, [strax.DataDirectory(d, readonly=True)], {"processor": "single_thread"},
                                   forbid_creation_of=("*",))
            ro_st = ro.is_stored("0", dt)
            if ro_st != (dt in stored):
                v.append(("readonly-view-differs", f"{when}: {dt} is {'stored' if dt in stored else 'unavailable'} for the writer's "
                                                   f"frontend but {'stored' if ro_st else 'unavailable'} through a read-only frontend", None))
            elif ro_st:
                with common.quiet():
                    got = ro.get_array("0", dt, progress_bar=False)
                if not oracle.rows_equal(got, out[dt]):
                    v.append(("stored-wrong", f"{when}: read-only frontend loads {got.tolist()} for {dt} instead of {out[dt].tolist()}", None))
        except Exception as e:  # noqa: BLE001
            v.append(("readonly-view-crashed", f"{when}: looking at {dt} through a read-only frontend raised {e!r}", e))
    return v, stored


def run_fault(cfg, fault, n_events=None, second=None):
    viol, cnt = [], {}
    spec = graph(cfg["graph"], cfg["rechunk"])
    out = oracle.whole_run(spec)
    d = hrun.mktemp("c04-")

    def add(kind, text, exc=None, **extra):
        sig = {"kind": kind, "fault": fault["kind"], "pool": bool(cfg["max_workers"]), "processor": cfg["processor"]}
        sig.update(extra)
        if exc is not None:
            sig.update(common.exc_sig(exc))
        viol.append({"sig": sig, "what": f"{kind}: {text}"[:600], "case": {"cfg": cfg, "fault": {k: v for k, v in fault.items()}, "second": second}})

    try:
        ok, exc, fired = run_faulted(spec, d, cfg, fault)
        if fired:
            cnt["faults_fired"] = 1
            cnt[{"raise": "exception_faults", "exit": "death_faults"}.get(fault["kind"], "midwrite_faults")] = 1
        vs, stored = verify_state(spec, d, out, "after the fault")
        cnt["states_verified"] = 1
        for kind, text, e in vs:
            add(kind, text, e)
        ev = fault.get("event") or {}
        root_mkdir = ev.get("op") == "os.mkdir" and ev.get("path") in (".", "")
        if fired and ok and fault["kind"] in ("raise", "mid_raise") and not root_mkdir:
            missing = [dt for dt in must_be_saved(spec) if dt not in stored]
            if missing:
                add("false-success", f"the faulted call ({ev or fault}) returned normally but {missing} were not saved", None,
                    op=ev.get("op"))
        # retry without cleanup (optionally with a second fault, then once more)
        if second is not None:
            ok2, exc2, fired2 = run_faulted(spec, d, cfg, second)
            cnt["double_faults"] = 1 if fired2 else 0
            vs, _ = verify_state(spec, d, out, "after the second fault")
            for kind, text, e in vs:
                add(kind, text, e)
        try:
            do_make(spec, d, cfg)
            vs, stored = verify_state(spec, d, out, "after the retry")
            for kind, text, e in vs:
                add(kind, text, e)
            # the identical request must now be satisfied from storage: its target is stored and correct.
            # (Intermediate types that were lost stay unavailable - they are reported as such - because the
            # stored target makes recomputing them unnecessary.)
            if "top" not in stored:
                add("retry-incomplete", f"the retry returned normally but its target is not stored (stored: {sorted(stored)})")
            else:
                cnt["retries_ok"] = 1
        except Exception as e:  # noqa: BLE001
            if "Timeout" in type(e).__name__ and "Mailbox" in type(e).__name__:
                # a wall-clock timeout of the real-thread pipeline on a loaded machine decides nothing
                cnt["retry_timeouts_inconclusive"] = 1
            else:
                add("retry-failed", f"identical retry without cleanup failed: {e!r}", e)
    finally:
        hrun.rm(d)
    return viol, cnt, fired


# ---------------------------------------------------------------- inlined (forked) savers
MP_ROWS = ((0, 500, 1), (800, 1200, 2), (3000, 3500, 3), (3600, 4000, 4), (6000, 6400, 5), (9000, 9300, 6))
MP_CUTS = (0, 2000, 5000, 10000)
MP_TYPES = ("mpsrc", "mprow", "mpma", "mpmb", "mptop")


def mp_context(d, fault=None, pace=None, **kw):
    from vf.harness import mp_plugins as mp

    cfg = dict(mp_rows=MP_ROWS, mp_cuts=MP_CUTS)
    if fault is not None:
        cfg["mp_fault"] = fault
    if pace is not None:
        cfg["mp_pace"] = pace
    return strax.Context(storage=[strax.DataDirectory(d)], register=mp.ALL_INLINE, config=cfg, **kw)


def mp_make(d, fault=None, pace=None):
    """plugins with parallel='process' + their savers are inlined into a ParallelSourcePlugin and run in a
    process pool (savers 'forked': chunk files are written by the worker processes, metadata by the parent)"""
    import multiprocessing as _mp

    if _mp.get_start_method(allow_none=True) != "forkserver":
        _mp.set_start_method("forkserver", force=True)
        # the fork server imports strax once; pool workers forked from it start in milliseconds
        _mp.set_forkserver_preload(["strax", "vf.harness.mp_plugins"])
    st = mp_context(d, fault, pace, allow_multiprocess=True, allow_lazy=False, max_messages=10, timeout=60,
                    processors=["threaded_mailbox"])
    with common.quiet():
        st.make("0", "mptop", progress_bar=False, max_workers=2)


def mp_verify(d, out, when):
    v, stored = [], set()
    for dt in MP_TYPES:
        st = mp_context(d, processors=["single_thread"], forbid_creation_of=("*",))
        try:
            is_st = st.is_stored("0", dt)
        except Exception as e:  # noqa: BLE001
            v.append(("is-stored-crashed", f"{when}: is_stored({dt}) raised {e!r}", e))
            continue
        try:
            with common.quiet():
                got = st.get_array("0", dt, progress_bar=False)
            exc = None
        except Exception as e:  # noqa: BLE001
            got, exc = None, e
        if is_st:
            stored.add(dt)
            if exc is not None:
                v.append(("stored-unloadable", f"{when}: {dt} is reported stored but loading failed: {exc!r}", exc))
            elif not oracle.rows_equal(got, out[dt]):
                v.append(("stored-wrong", f"{when}: {dt} is reported stored but loads {got.tolist()} instead of {out[dt].tolist()}", None))
        elif exc is None:
            v.append(("partial-visible", f"{when}: {dt} is reported unavailable but get_array returned {len(got)} rows", None))
        elif not isinstance(exc, strax.DataNotAvailable):
            v.append(("unavailable-wrong-error", f"{when}: {dt} unavailable, but loading raised {exc!r} instead of DataNotAvailable", exc))
    return v, stored


def run_inline_fault(fault):
    """fault: {'where': 'child', dtype, chunk, op, mode} or {'where': 'parent', 'k': event index}."""
    from vf.harness import mp_plugins as mp

    viol, cnt = [], {}
    out = mp.whole_run(list(MP_ROWS))
    d = hrun.mktemp("c04i-")
    marker = d.rstrip("/") + ".fired"

    def add(kind, text, exc=None, **extra):
        sig = {"kind": kind, "fault": fault.get("mode", "raise"), "pool": True, "processor": "threaded_mailbox", "inlined_savers": True,
               "where": fault["where"]}
        sig.update(extra)
        if exc is not None:
            sig.update(common.exc_sig(exc))
        viol.append({"sig": sig, "what": f"{kind}: {text}"[:600], "case": {"inline": True, "fault": dict(fault)}})

    try:
        exc = None
        if fault["where"] == "child":
            spec = {"dtype": fault["dtype"], "chunk": fault["chunk"], "op": fault["op"], "mode": fault["mode"], "marker": marker}
            try:
                mp_make(d, spec, fault.get("pace"))
            except BaseException as e:  # noqa: BLE001
                exc = e
            fired = os.path.exists(marker)
            if fired and fault.get("pace"):
                cnt["paced_inline_faults_fired"] = 1
        else:
            fsaudit.arm(d, fault_at=fault["k"], fault_kind="raise")
            try:
                mp_make(d)
            except BaseException as e:  # noqa: BLE001
                exc = e
            ev, fired = fsaudit.disarm()
            fault["event"] = next((e for e in ev if e.get("fault")), None)
        if exc is not None and "Timeout" in type(exc).__name__:
            cnt["inline_timeouts"] = 1
        if fired:
            cnt["faults_fired"] = 1
            cnt["inline_faults_fired"] = 1
            cnt["death_faults" if fault.get("mode") == "exit" else "exception_faults"] = 1
        vs, stored = mp_verify(d, out, "after the fault")
        cnt["states_verified"] = 1
        for kind, text, e in vs:
            add(kind, text, e)
        ev0 = fault.get("event") or {}
        root_mkdir = ev0.get("op") == "os.mkdir" and ev0.get("path") in (".", "")
        if fired and exc is None and not root_mkdir:
            missing = [dt for dt in MP_TYPES if dt not in stored]
            if missing:
                add("false-success", f"the faulted call ({fault}) returned normally but {missing} were not saved", None, op=fault.get("op") or ev0.get("op"))
        try:
            mp_make(d)
            vs, stored = mp_verify(d, out, "after the retry")
            for kind, text, e in vs:
                add(kind, text, e)
            if "mptop" not in stored:
                add("retry-incomplete", f"the retry returned normally but its target is not stored (stored: {sorted(stored)})")
            else:
                cnt["retries_ok"] = 1
        except Exception as e:  # noqa: BLE001
            if "Timeout" in type(e).__name__ and "Mailbox" in type(e).__name__:
                # a wall-clock timeout of the real-thread pipeline on a loaded machine decides nothing
                cnt["retry_timeouts_inconclusive"] = 1
            else:
                add("retry-failed", f"identical retry without cleanup failed: {e!r}", e)
    finally:
        hrun.rm(d)
        if os.path.exists(marker):
            os.remove(marker)
    return viol, cnt, fired


def inline_faults(tier, shard, nshards):
    q = tier == "quick"
    nchunks = len(MP_CUTS) - 1
    out = []
    for dtype in MP_TYPES:
        for chunk in range(nchunks):
            for op in ("open:w", "os.rename", "meta"):
                for mode in ("raise", "exit"):
                    if q and (chunk == 1 or (chunk == 2 and mode == "exit")):
                        continue
                    out.append({"where": "child", "dtype": dtype, "chunk": chunk, "op": op, "mode": mode})
    # paced runs (F31): the first chunk is slow to compute, the middle chunk's write fails at once, the last chunk
    # becomes available late - the failed task has finished before the source submits its last task and ends
    pace = {"slow_chunk": 0, "slow_by": 1.5, "late_chunk": 2, "late_by": 0.7}
    for dtype in (("mptop", "mpsrc") if q else MP_TYPES):
        for op in (("open:w", "meta") if q else ("open:w", "os.rename", "meta")):
            out.append({"where": "child", "dtype": dtype, "chunk": 1, "op": op, "mode": "raise", "pace": dict(pace)})
    return [f for i, f in enumerate(out) if i % nshards == shard]


def record_events(cfg):
    spec = graph(cfg["graph"], cfg["rechunk"])
    d = hrun.mktemp("c04-")
    try:
        fsaudit.arm(d)
        do_make(spec, d, cfg)
        ev, _ = fsaudit.disarm()
    finally:
        hrun.rm(d)
    mut = [e for e in ev if "k" in e]
    nwrites = sum(1 for e in mut if e["op"] == "open:w" and not e["path"].endswith(".json"))
    return ev, len(mut), nwrites


def units(tier, seed):
    cs = list(enumerate(configs()))
    if tier == "quick":
        # quick: 12 of the 18 configurations (rotating with the seed), all fault kinds
        cs = [(i, c) for i, c in cs if (i + seed) % 3 != 2]
    us = [{"name": f"cfg-{i}", "cfg": c, "seed": seed, "tier": tier} for i, c in cs]
    nsh = 8
    us += [{"name": f"inline-{k}", "fam": "inline", "shard": k, "nshards": nsh, "seed": seed, "tier": tier} for k in range(nsh)]
    return us


def run_unit(u):
    fsaudit.install()
    res = {"evaluations": 0, "distinct": 0, "counters": {}, "samples": [], "violations": [], "inconclusive": []}
    cnt = res["counters"]
    if u.get("fam") == "inline":
        faults = inline_faults(u["tier"], u["shard"], u["nshards"])
        # parent-side events of the same configuration (metadata writes, final renames happen in the parent)
        d0 = hrun.mktemp("c04i-")
        try:
            fsaudit.arm(d0)
            mp_make(d0)
            ev, _ = fsaudit.disarm()
        finally:
            hrun.rm(d0)
        npar = len([e for e in ev if "k" in e])
        cnt["fs_events_recorded"] = len(ev)
        faults += [{"where": "parent", "k": k} for k in range(npar) if k % u["nshards"] == u["shard"]]
        for fault in faults:
            viol, c, fired = run_inline_fault(fault)
            res["evaluations"] += 1
            if fired:
                res["distinct"] += 1
            for k, v in c.items():
                cnt[k] = cnt.get(k, 0) + v
            if len(res["violations"]) < 25:
                res["violations"].extend(viol[:2])
        res["samples"].append({"inlined_savers": True, "child_fault_positions": len(faults), "parent_events": npar})
        return res
    cfg = u["cfg"]
    q = u["tier"] == "quick"
    ev, n, nwrites = record_events(cfg)
    cnt["fs_events_recorded"] = len(ev)
    rng = random.Random(f"{u['seed']}:{cfg}")
    faults = [{"kind": "raise", "k": k} for k in range(n)]
    deaths = [{"kind": "exit", "k": k} for k in range(n + 1)]
    if q:
        deaths = [f for f in deaths if f["k"] % 2 == 0 or f["k"] >= n - 2]
    faults += deaths
    for j in range(nwrites):
        faults.append({"kind": "mid_raise", "j": j})
        if not q or j % 2 == 0:
            faults.append({"kind": "mid_exit", "j": j})
    for fault in faults:
        second = None
        if rng.random() < (0.06 if q else 0.25):
            second = {"kind": rng.choice(["raise", "exit"]), "k": rng.randrange(max(1, n))}
        viol, c, fired = run_fault(cfg, fault, n, second)
        res["evaluations"] += 1
        if fired:
            res["distinct"] += 1
        for k, v in c.items():
            cnt[k] = cnt.get(k, 0) + v
        if len(res["violations"]) < 25:
            res["violations"].extend(viol[:2])
    res["samples"].append({"cfg": cfg, "mutating_events": n, "events": [e for e in ev if "k" in e][:12]})
    return res


def replay(case):
    fsaudit.install()
    if case.get("inline"):
        viol, c, fired = run_inline_fault(dict(case["fault"]))
        return viol
    viol, c, fired = run_fault(case["cfg"], dict(case["fault"]), None, case.get("second"))
    return viol


def _exercise():
    fsaudit.install()
    for c in configs()[::3]:
        record_events(c)


def warm():
    hrun.warm_numba()
    _exercise()


def prefork():
    _exercise()
