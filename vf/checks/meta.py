"""Per-property manifest texts (importable without strax)."""

META = {
    "C17": {
        "level_text": (
            "Every interval primitive is executed on all sorted interval multisets of up to 4 things x 3 "
            "containers on a small grid (both end-time encodings, windows -2..3) and on seeded random arrays, "
            "and compared with a quadratic evaluation of its definition; repeated under numba bounds checking. "
            "Exploration is the right level: the functions are pure, the small scope is enumerated completely "
            "and the oracle is independent of the implementation."
        ),
        "level_note": (
            "trusted: reference definitions in vf/checks/c17.py; preconditions as documented (sorted, positive "
            "length, disjoint containers); nothing is claimed beyond the enumerated scope and sampled larger inputs"
        ),
        "technique": "runtime oracle vs reference model over exhaustive small-scope inputs + numba bounds-check sanitizer",
    },
    "C18": {
        "level_text": (
            "find_hits (all fields), cut_outside_hits, record_links, baseline, zero_out_of_bounds and integrate "
            "run on every integer waveform over {0,1,2,5} up to 7 samples (2 channels, 1-2 fragments, record "
            "lengths 4-5) and on seeded random pulses of up to 3 fragments x 3 channels with removed fragments; "
            "results are compared with forward references in pulse coordinates; repeated under numba bounds "
            "checking, where an out-of-range index (otherwise a silent overrun or SIGSEGV) raises IndexError."
        ),
        "level_note": (
            "trusted: references in vf/checks/c18.py; thresholds >= 1, samples >= 0; cut_baseline excluded "
            "(outside the statement; does not compile under numba 0.67)"
        ),
        "technique": "runtime oracle vs forward reference over exhaustive small waveforms + numba bounds-check sanitizer",
    },
    "C19": {
        "level_text": (
            "find_peaks / find_peak_groups are compared with a forward reference clustering on seeded random hit "
            "sets (1..12 hits, 4 channels, swept gap / extensions / max_duration / cuts); sum_waveform and "
            "store_downsampled_waveform with a sample-by-sample reference built from records and hits incl. "
            "down-sampling and area conservation; merge_peaks / replace_merged / add_lone_hits with their "
            "definitions; split_peaks (both splitters, 1-2 iterations) must tile every parent; the helpers are "
            "compared with their defining formulas on all waveforms of <= 7 samples over {0,1,2,5}. Repeated "
            "under numba bounds checking."
        ),
        "level_note": (
            "trusted: references in vf/checks/c19.py; find_peaks duration cut only in the two regimes where "
            "statement and code agree on the meaning of duration; float32 tolerance 1e-4"
        ),
        "technique": "runtime oracle vs forward reference models on generated hits/records/peaks + numba bounds-check sanitizer",
    },
    "C07": {
        "level_text": (
            "Chunk.split is executed for every sorted interval array of <= 4 rows on a small grid x every split "
            "time (incl. outside the chunk) x allow_early_split and checked against a brute-force oracle "
            "(adjacency, bit-identical concatenation, sides, outer bounds, CannotSplit iff a row straddles, early "
            "split == latest clean cut); concatenate/merge for every partition incl. zero-duration chunks plus all "
            "required rejections; the Rechunker as a stream monitor (conservation, contiguity, range, clean cuts, "
            "no failure on valid input) on coarse-grid runs x partitions x target sizes 1..n+1; sub/super-run "
            "annotations partitioned by split and restored by concatenate."
        ),
        "level_note": "trusted: oracles in vf/mon/chunklaws.py; rows of positive length; exhaustive only within the stated grid",
        "technique": "runtime contracts (pre/post-condition oracles) on the real Chunk/Rechunker over exhaustive small-scope inputs; numba bounds-check pass on split_array",
    },
    "C01": {
        "level_text": (
            "Random plugin graphs of all plugin kinds named in the property are run through the real "
            "Context.get_iter under random independent chunkings per source (empty and zero-duration chunks "
            "included), both processors, lazy/eager, worker pools, rechunk on/off, tiny to huge chunk target "
            "sizes and a random stored subset made under a different chunking; the yielded rows, tiling and "
            "containment are compared with a whole-run oracle, everything stored is re-loaded from a fresh "
            "context and compared, and chunk-law monitors watch every Chunk split/concatenate/merge/rechunk "
            "strax performs. Schedules are OS-chosen here; controlled schedules are in C05/C06/C13."
        ),
        "level_note": (
            "trusted: harness plugins + whole-run oracle (vf/harness); capacity drawn above the lag; real-thread "
            "timeouts are inconclusive; bounds: <= 2 sources, <= 6 derived plugins, <= 14 rows per source"
        ),
        "technique": "differential runtime oracle (chunked real pipeline vs whole-run reference) on random graphs/chunkings/configs, incl. a multiprocessing family (process pool, inlined plugins and savers) + always-on chunk-law contracts",
    },
    "C08": {
        "level_text": (
            "A recording consumer plugin with 1..4 dependencies over 1..3 kinds is run through the real "
            "Plugin.iter under both processors with an independent chunking per dependency; each compute "
            "call's interval, per-kind row ranges, same-kind row alignment and adjacency, and the per-run "
            "exactly-once / in-order delivery of every input row are checked from the recorded event log "
            "(exactly-once monitor over unique row ids). Small scope (two same-kind deps <= 2 rows + one other "
            "kind <= 1 row, all cut subsets up to 2 inner cuts, with/without trailing zero-duration chunk) is "
            "enumerated; larger cases are random."
        ),
        "level_note": "trusted: the event recorder in vf/harness/plugins.py; same-kind deps share row intervals",
        "technique": "offline checker over recorded compute-call event logs (exactly-once, ordering, alignment) on exhaustive small + random chunkings; differential run of a two-input plugin inlined into a process pool",
    },
    "C09": {
        "level_text": (
            "Window-local harness plugins (per-row, per-group and a two-output variant) run through the real "
            "OverlapWindowPlugin under every chunking of every disjoint row set of <= 3 rows on a small grid "
            "for seven symmetric/asymmetric/zero windows, plus random larger cases (rows longer than the window, "
            "many chunks shorter than the window, empty/zero-duration chunks), both processors; the result is "
            "compared with one computation over the whole run, chunk tiling/containment is checked, and an "
            "emission monitor checks that multi-output emissions are mutually aligned and adjacent."
        ),
        "level_note": "trusted: window-locality of the harness computations; whole-run oracle; emission recorder in the harness plugin's iter()",
        "technique": "differential runtime oracle (chunked vs whole-run) over exhaustive small chunkings + emission-alignment monitor",
    },
    "C10": {
        "level_text": (
            "For random stored layouts (original and rechunked on-disk chunking, overlapping rows, three time "
            "units incl. binary-exact fractions of a second) every time range with endpoints on, just inside and "
            "just outside every row and chunk boundary is requested through the real get_array in both "
            "time-selection modes, plus selection strings/callables, keep/drop column sets, seconds_range and "
            "time_within, for one and two same-kind targets and both processors; each answer is compared with "
            "the unrestricted result filtered by an independent numpy predicate; ranges outside the run must "
            "raise, ranges without rows must be empty, and the storage listing must not change."
        ),
        "level_note": "trusted: the unrestricted get_array result as reference (C01/C03 decide it); independent predicate in vf/checks/c10.py",
        "technique": "runtime oracle: real partial requests vs reference filter over exhaustive boundary-endpoint ranges; storage-listing monitor",
    },
    "C11": {
        "level_text": (
            "For random plugin graphs with per-output save policies, random stored subsets spread over one or "
            "two storage frontends (readonly / take_only / exclude), targets, save= sets, request modifiers and "
            "forbid_creation_of, a reference planner over the declared graph predicts which plugins run, what is "
            "loaded, what is saved where and whether an explicit error is due; the real request is observed "
            "through the compute-call log (plugins that ran, exactly-once delivery of every input row), an audit "
            "hook on chunk-file reads (what was loaded), directory listings (what was saved), the exception type, "
            "the ProcessorComponents of an identical get_components call and the rows returned."
        ),
        "level_note": "trusted: reference planner in vf/checks/c11.py (reading of the statement), audit-hook file tracer",
        "technique": "reference-model monitor (planner) vs observed compute log / file-system audit trace / directory listings on random graphs and stored subsets",
    },
    "C12": {
        "level_text": (
            "The product of plugin kind {source, ordinary, multi-output, down-chunking, loop, cut, overlap-window} "
            "x every violation kind applicable to it {wrong dtype as bare array / wrapped in a directly built "
            "chunk / in a chunk claiming the declared dtype / via self.chunk, rows ending late or starting early, "
            "foreign label, gap / overlap in the target, non-dict from multi-output, non-generator / non-chunk "
            "from down-chunking} x position of the offending call {first, middle, last} x processor x storage is "
            "enumerated; a monitor on the get_iter consumer checks that no yielded chunk violates the declared "
            "contract, that the request raises, and that a fresh context does not see the offending data as stored."
        ),
        "level_note": "trusted: the injected violations are faithful to what a buggy plugin returns; chunks <= 500 rows",
        "technique": "fault injection at the plugin boundary (enumerated) + consumer-side contract monitor on yielded chunks + post-run storage probe",
    },
    "C03": {
        "level_text": (
            "Random contiguous chunk sequences (three structured dtypes incl. array-valued, bool and titled "
            "fields and both end-time encodings; overlapping rows; empty and zero-duration chunks) are written "
            "through the real saver and read back through the real loader for every combination of compressor x "
            "rechunk x serial/pool saving x serial/pool loading; rows must be bit-identical, the range and "
            "contiguity preserved, boundaries unchanged (or only merged / cut in row-free gaps when rechunking), "
            "and a metadata oracle compares every per-chunk and top-level metadata field with the files on disk "
            "and the loaded chunks."
        ),
        "level_note": "trusted: metadata oracle in vf/mon/storagemd.py; DataDirectory / FileSytemBackend only",
        "technique": "round-trip runtime oracle (written vs loaded rows, boundaries) + metadata/file consistency monitor over exhaustive configuration product per random input; pool saving additionally under a cooperative scheduler (seeded random / PCT order of the queued chunk writes)",
    },
    "C05": {
        "level_text": (
            "The real strax.Mailbox and divide_outputs run under a cooperative deterministic scheduler (every "
            "lock / condition / thread / future operation is a scheduling point, timeouts on a virtual clock): "
            "for every small configuration (1..3 subscribers, 0..5 messages, capacity 1..4, lazy/eager, all "
            "driver masks, plain values and futures completed by a concurrent worker, explicit numbering in "
            "every permutation admitted by the capacity bound, dividers over 2-3 mailboxes incl. flow-freely "
            "outputs) the default schedule and all schedules deviating from it at <= 1 (thorough: 2) decisions "
            "are executed, plus seeded random and PCT schedules; each run is judged for exactly-once in-order "
            "delivery to every subscriber, termination, no deadlock, no progress by virtual timeout (lost "
            "wake-up) and the eager capacity bound (largest heap size observed at every push). A real-thread "
            "pass with a 1 us switch interval re-checks delivery."
        ),
        "level_note": (
            "trusted: vf/sched/coop.py reproduces RLock/Condition/Thread semantics; exhaustive only up to the "
            "stated deviation bound; pre-emption at synchronisation operations only"
        ),
        "technique": "controlled-schedule runtime monitoring: cooperative deterministic scheduler with virtual time (systematic bounded deviations + random + PCT) and a history checker for exactly-once ordered delivery",
    },
    "C06": {
        "level_text": (
            "Every (stage, chunk index) failure position - source, mid-graph plugin, multi-output plugin, loader, "
            "saver of the target, saver of a side output, consumer closing the iterator - in three plugin graphs "
            "is enumerated; the complete real stack (get_iter, ThreadedMailboxProcessor, mailboxes, worker pool, "
            "savers) runs under the cooperative deterministic scheduler with random and PCT schedules, eager and "
            "lazy, with and without a pool, and the single-thread processor and a real-thread stress pass cover "
            "the same positions. A run is judged by: the caller received the injected exception object itself "
            "(not a timeout, a wrapper or a normal return), all pipeline threads finished, no deadlock, virtual "
            "clock still 0. Fault-free runs must finish with the right rows on every schedule."
        ),
        "level_note": "trusted: vf/sched/coop.py + shims; termination only as 'no deadlock / no virtual timeout on explored schedules'",
        "technique": "fault injection at enumerated (stage, chunk) positions under a cooperative deterministic scheduler with virtual time (+ real threads, + failures inside process-pool workers); exception-identity and thread-termination monitors",
    },
    "C13": {
        "level_text": (
            "The consumer of get_iter pulls k chunks and parks; under the cooperative scheduler the rest of the "
            "real pipeline runs until the scheduler detects quiescence. Monitors: number of source chunks "
            "produced (must stay below a bound depending only on graph and capacity, and be identical for runs "
            "of N, 2N (4N) chunks under the adversarial upstream-first schedule), the largest number of messages "
            "every mailbox ever held (recorded at every heap push; <= capacity in eager mode), and in lazy mode "
            "the demand state of the fed mailbox at every producer advance. Five graph shapes x capacity 1..4 x "
            "lazy/eager x k 1..3 x adversarial / random / PCT schedules."
        ),
        "level_note": "trusted: vf/sched/coop.py quiescence detection; the explicit bound is generous by construction",
        "technique": "controlled-schedule runtime monitoring with quiescence detection (park-the-consumer probe), conservation/bound monitors on mailbox occupancy and producer advances",
    },
    "C04": {
        "level_text": (
            "For 18 configurations (row-wise / multi-output / overlap-window graph x single-thread / threaded "
            "processor x serial / thread-pool saving x rechunk on/off) the file-system event sequence of a "
            "fault-free make is recorded through an audit hook; then the run is repeated once per mutating event "
            "with an OSError injected at that event (also on pool worker threads), once per event with the "
            "process killed just before it (forked child), and per chunk file with the write stopping half way "
            "(exception and death). After each, a fresh context must see only complete, correct data as stored "
            "and refuse everything else; an identical retry without cleanup must succeed and store correct "
            "data (sampled second fault during the retry); a faulted call that returned normally must really "
            "have saved its outputs."
        ),
        "level_note": "trusted: audit-hook tracer (sees Python-level file operations), POSIX rename atomicity, no lost page-cache model",
        "technique": "fault enumeration over the recorded file-system event trace (exception / process death / torn write at every event; for inlined savers also inside the pool worker processes) + fresh-context state oracle + retry",
    },
    "C02": {
        "level_text": (
            "Random histories of set_config (tracked, untracked, shared and child options), re-registration of "
            "same-named plugins with another default / version / dependency / class name, new_context, make and "
            "get_array run on two long-lived contexts sharing one storage directory; after every step both "
            "contexts' key tables and every returned array are compared with a brand-new context built from the "
            "same definitions (row values encode class name, version and all tracked options, so stale data is "
            "visible in the values); each mutating step must change exactly the keys of the affected plugin and "
            "its descendants; key tables are recomputed in other processes with hash seeds 0 / 1 / random and "
            "shuffled option order; fuzzy matching is compared with an independent atom-wise lineage diff and "
            "must not write."
        ),
        "level_note": "trusted: fresh-context oracle; JSON-serialisable option values only; 5-plugin graph with shared option and child plugin",
        "technique": "history-based runtime monitoring: 2..4 long-lived contexts (derived ones beside their parents, each with its own model) vs fresh-context reference after the steps of random operation histories; cross-process key determinism probe",
    },
    "C14": {
        "level_text": (
            "Random superruns (1..4 subruns, each with its own random legal chunk layout incl. zero-duration "
            "chunks and adjacent subruns) are requested through the real Context with the first superrun-capable "
            "plugin at depth 1..3, targets at or above it, write_superruns on/off, three rechunk targets and "
            "both processors; the rows are compared with the concatenation of the subruns' own results (row "
            "values carry the run id), every yielded and every stored-and-re-read chunk is checked for correct "
            "per-row attribution, spans inside the true run extent and spans tiling each subrun exactly once, "
            "and a redefined superrun must not see previously stored data."
        ),
        "level_note": "trusted: per-row run ids in the values; feature tags in violation signatures for mechanism-keyed known findings",
        "technique": "differential runtime oracle (superrun vs ordered subrun concatenation) + per-chunk bookkeeping monitor on yielded and stored chunks",
    },
    "C16": {
        "level_text": (
            "Random stored layouts are transformed with the real tools - Context.copy_to_frontend (compressor, "
            "rechunk, size), the stand-alone rechunker (4 compressors x target sizes x serial / thread / process "
            "x in place / new location), rechunk_on_load under both processors and with a worker pool, and "
            "per-chunk builds for every grouping of up to 5 dependency chunks followed by "
            "merge_per_chunk_storage - and the result is loaded by a fresh context: rows must be bit-identical "
            "to the source, chunks contiguous and law-abiding, the new metadata consistent with the new files "
            "(metadata oracle of C03), and the source tree byte-identical (content hash) unless replaced."
        ),
        "level_note": "trusted: metadata oracle in vf/mon/storagemd.py; rechunker driven with its default progress bar",
        "technique": "differential runtime oracle (transformed vs source data) + metadata/file consistency monitor + source-tree hash; thread-mode rechunker additionally under a cooperative scheduler",
    },
    "C15": {
        "level_text": (
            "get_array / get_df / make for 2..8 runs with 1..8 worker threads on one shared context is executed "
            "under OS schedules amplified by a 1 us interpreter switch interval, under the default interval, and "
            "under seeded yield injection at statement boundaries of strax/context.py and multi_run "
            "(sys.monitoring LINE events), with cold and warm plugin caches, with and without storage, for a "
            "single target and for two same-kind targets, optionally with one failing run (with / without "
            "ignore_errors). The result must equal sequential single-run calls on a fresh context concatenated "
            "in run-id order with the run id attached; no other exception may surface; afterwards the registry "
            "holds no temporary plugin and the keys equal a fresh context's."
        ),
        "level_note": "trusted: sequential fresh-context reference; schedules are amplified, not enumerated (no control over pre-emption inside C-level operations)",
        "technique": "stress-schedule runtime monitoring (1 us switch interval + seeded line-level yield injection via sys.monitoring) with a sequential reference oracle and registry/cache invariants",
    },
}


# families added after the seeded-change rounds (DESIGN.md 8.5)
_ADDED = {
    "C01": " A multiprocessing family runs a module-level graph in a process pool in three shapes (nothing inlined; source, "
           "chain and savers inlined; inlining that starts at a plugin with a dependency), optionally with an overlap-window "
           "plugin behind the chain; a fan-out graph (two exhaust plugins and a plugin merging the source with both) puts "
           "three readers at different paces on one data type.",
    "C02": " Two to four contexts live side by side (contexts derived with new_context stay in use beside their parents), "
           "every context has its own model of what it was told, mutations go to subsets of the contexts, registrations are "
           "only sometimes followed by an observation, releases may change version and another attribute at once (also back "
           "to an earlier version), an option is tracked by one plugin and untracked by another, and a fuzzy context copies "
           "to a second frontend.",
    "C03": " Pool saving also runs on a cooperative scheduler (seeded random / PCT order of the queued chunk writes); forked "
           "savers are driven the way a ParallelSourcePlugin drives them; chunk files of ~1 MB are loaded concurrently by "
           "eight threads (all reads in flight at once) for every compressor; a failed-write family makes the j-th chunk "
           "write raise (every j, serial and pool): data then offered as complete must have all its files and rows.",
    "C04": " An inlined-savers family injects the fault inside the pool worker process that writes the chunk (write, rename, "
           "per-chunk metadata; exception or death of the worker) and at every parent-side event; the state oracle also "
           "looks at the directory through a read-only frontend; paced runs (first chunk slow, last chunk late) let the "
           "failed task finish before the source plugin ends (F31).",
    "C06": " Further stages: chunk write failing on a pool worker thread; plugin computation or inlined saver failing inside a "
           "pool worker process; a 40-chunk source that must stop after the failure; multi-output plugins computed in the "
           "pool with the target on the first or on the second output; a multi-output plugin declaring its own buffer size.",
    "C08": " A two-input plugin (plus a two-output plugin behind it) is inlined into a process pool and compared with the "
           "single-thread processor on identical chunkings (leftover rows must raise there too; every interval is handed to "
           "the inlined plugins exactly once - call log written from the workers).",
    "C10": " Partial requests are also issued for data that has to be computed (EXPLICIT outputs beside an unsaved ALWAYS "
           "sibling), for a second stored type of the same kind with its own chunk layout, and on runs with epoch-scale "
           "timestamps.",
    "C11": " Strata: multi-output plugins with per-output policies x every request modifier; forbid_creation_of as tuple / list "
           "/ string with nested type names; frontends with take_only and exclude; a request with a per-call option followed by "
           "a plain one on the same context; inlined savers with one to three writable frontends.",
    "C12": " Violation kinds include an empty result of another dtype (bare and wrapped), array fields of another shape, "
           "and a chunk of the sibling output.",
    "C13": " Configurations with a worker pool (lazy allowed and forbidden) and with the source loaded from storage (chunk "
           "reads of the backend are counted) are included; lazy mailboxes with several subscribers get ten PCT schedules.",
    "C14": " Run names whose lexicographic order differs from their time order, definition lists in shuffled order, a two-input "
           "join plugin with an input made for the superrun first, redefinition through the context that made the data (name "
           "with and without the underscore), and a time-range read of the stored superrun are included.",
    "C16": " The thread-mode rechunker also runs under the cooperative scheduler; copies go to one to three target frontends; "
           "per-chunk jobs are also requested for a plugin taking chunk_i and for overlap-window plugins (which must be "
           "refused).",
}
for _k, _t in _ADDED.items():
    META[_k]["level_text"] += _t
