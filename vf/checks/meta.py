"""Per-property manifest texts (importable without strax)."""

META = {
    "C17": {
        "level_text": (
            "Every interval primitive is executed on all sorted interval multisets of up to 4 things x 3 "
            "containers on a small grid (both end-time encodings, windows -2..3) and on seeded random arrays, "
            "and compared with a quadratic evaluation of its definition; repeated under numba bounds checking. "
            "Exploration is the right level: the functions are pure, the small scope is enumerated completely "
            "and the oracle is independent of the implementation."
        ),
        "level_note": (
            "trusted: reference definitions in vf/checks/c17.py; preconditions as documented (sorted, positive "
            "length, disjoint containers); nothing is claimed beyond the enumerated scope and sampled larger inputs"
        ),
        "technique": "runtime oracle vs reference model over exhaustive small-scope inputs + numba bounds-check sanitizer",
    },
}
