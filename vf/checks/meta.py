"""Per-property manifest texts (importable without strax)."""

META = {
    "C17": {
        "level_text": (
            "Every interval primitive is executed on all sorted interval multisets of up to 4 things x 3 "
            "containers on a small grid (both end-time encodings, windows -2..3) and on seeded random arrays, "
            "and compared with a quadratic evaluation of its definition; repeated under numba bounds checking. "
            "Exploration is the right level: the functions are pure, the small scope is enumerated completely "
            "and the oracle is independent of the implementation."
        ),
        "level_note": (
            "trusted: reference definitions in vf/checks/c17.py; preconditions as documented (sorted, positive "
            "length, disjoint containers); nothing is claimed beyond the enumerated scope and sampled larger inputs"
        ),
        "technique": "runtime oracle vs reference model over exhaustive small-scope inputs + numba bounds-check sanitizer",
    },
    "C18": {
        "level_text": (
            "find_hits (all fields), cut_outside_hits, record_links, baseline, zero_out_of_bounds and integrate "
            "run on every integer waveform over {0,1,2,5} up to 7 samples (2 channels, 1-2 fragments, record "
            "lengths 4-5) and on seeded random pulses of up to 3 fragments x 3 channels with removed fragments; "
            "results are compared with forward references in pulse coordinates; repeated under numba bounds "
            "checking, where an out-of-range index (otherwise a silent overrun or SIGSEGV) raises IndexError."
        ),
        "level_note": (
            "trusted: references in vf/checks/c18.py; thresholds >= 1, samples >= 0; cut_baseline excluded "
            "(outside the statement; does not compile under numba 0.67)"
        ),
        "technique": "runtime oracle vs forward reference over exhaustive small waveforms + numba bounds-check sanitizer",
    },
}
