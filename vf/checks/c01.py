"""C01 Results do not depend on chunking, processor, parallelism or what is stored.

Workload: random plugin graph (row-wise, filter, same-kind merge, multi-output, loop,
overlap window, group window, down-chunking, exhaust) x independent law-abiding
chunking per source x processor configuration x random stored subset (made under a
different chunking and configuration, then partly deleted). Oracle: whole-run
computation (vf.harness.oracle); tiling; containment; re-load of everything stored;
always-on chunk-law monitors on every Chunk operation strax performs.
"""
import os

import numpy as np

from vf import common

common.setup_env()
strax = common.import_strax()
from vf.checks.meta import META  # noqa: E402
from vf.harness import gen, oracle, run as hrun, plugins as hp  # noqa: E402
from vf.mon import chunklaws as cl  # noqa: E402

PROPERTY = "C01"
LEVEL = "exploration"
TECHNIQUE = META["C01"]["technique"]
RULE = (
    "case = (plugin graph, rows, per-source chunking, processor config, pre-stored subset made under another "
    "chunking/config, deletions, target), drawn from VERIF_SEED; distinct by hash of the materialised case; "
    "non-trivial = target has >= 1 row in the whole-run result, >= 2 source chunks, and the request completed "
    "so that rows, tiling and containment were compared"
)
ASSUMPTIONS = [
    "harness plugins are chunking-independent by construction (row-wise, containment in a disjoint base, "
    "window-local, whole-run with ExhaustPlugin)",
    "mailbox capacity is drawn above the largest lag (3 x chunks + 8), as the property requires",
    "real-thread runs: a strax timeout is inconclusive, not a violation (deadlocks are decided in C05/C06/C13)",
]
REQUIRED = {"mp_runs": 5, "mp_reloads": 5, "requests_completed": 100, "chunks_checked": 300, "law_chunk_init": 1000, "law_split": 100,
            "reloads_checked": 50, "prestores": 30, "threaded_runs": 30, "single_thread_runs": 30}
UNIT_TIMEOUT = 1200


def gen_case(seed, idx):
    rng = gen.rng_for(seed, "c01", idx)
    scale = rng.choice([1, 1, 400])
    srcs, t0, t1 = gen.gen_sources(rng, scale)
    trailing = rng.random() < 0.06
    for s in srcs:
        s["cuts"] = gen.gen_cuts(rng, s["rows"], t0, t1, scale, allow_trailing_zero=trailing)
    plugins = gen.gen_graph(rng, srcs, scale)
    fanout = rng.random() < 0.08
    if fanout:
        # one data type with three readers that do not advance in lock-step: two run-level (exhaust) plugins that
        # swallow the whole run before they emit anything, and a plugin that merges the source with both of them
        plugins = [{"name": "x1ex", "type": "exhaust", "deps": ["ev"], "field": "v1"},
                   {"name": "x2ex", "type": "exhaust", "deps": ["ev"], "field": "v2"},
                   {"name": "toprow", "type": "row", "deps": ["ev", "x1ex", "x2ex"], "c": 2, "field": "v0"}]
    spec = {"sources": srcs, "plugins": plugins}
    out = oracle.whole_run(spec)
    gen.fix_group_windows(spec, out)
    nmax = max(len(s["cuts"]) for s in srcs)
    cfg = gen.gen_config(rng, nmax)
    cfg_b = gen.gen_config(rng, nmax)
    cuts_b = {s["name"]: gen.gen_cuts(rng, s["rows"], t0, t1, scale) for s in srcs}
    # capacity above the largest plugin lag: an exhaust plugin lags by the whole run, in whichever chunking the
    # data reaches it (also the chunking under which a dependency was pre-stored)
    need = max(len(c) for c in list(cuts_b.values()) + [s["cuts"] for s in srcs])
    cfg["max_messages"] = max(cfg["max_messages"], 3 * need + 8)
    types = gen.all_types(spec)
    pre = rng.sample(types, rng.randint(0, min(3, len(types))))
    case = {"spec": spec, "cfg": cfg, "cfg_b": cfg_b, "cuts_b": cuts_b, "prestore": pre,
            "delete_p": rng.choice([0.0, 0.3, 0.6]), "delete_seed": rng.randint(0, 10 ** 6),
            "target": rng.choice(types), "scale": scale, "t0": t0, "t1": t1}
    if fanout:
        case["target"] = "toprow"
        case["prestore"] = [x for x in pre if x in ("ev", "th")]
    return case


def features(case):
    f = {}
    spec = case["spec"]
    cf = set()
    for s in spec["sources"]:
        cf |= gen.cut_features(s["cuts"])
    f["f_trailing_zero"] = "trailing_zero_duration" in cf
    f["f_types"] = sorted({p["type"] for p in spec["plugins"]})
    return f


def save_policy(spec):
    pol = {s["name"]: "ALWAYS" for s in spec["sources"]}
    for p in spec["plugins"]:
        sw = p.get("save_when", "ALWAYS")
        for d in hp.provides_of(p):
            pol[d] = sw[d] if isinstance(sw, dict) else sw
    return pol


def run_case(case):
    """Returns (violations, counters, nontrivial)."""
    import random

    spec = case["spec"]
    viol = []
    cnt = {}
    feats = features(case)

    def add(stage, kind, what, exc=None, **extra):
        sig = {"stage": stage, "kind": kind, "f_trailing_zero": feats["f_trailing_zero"]}
        sig.update(extra)
        if exc is not None:
            sig.update(common.exc_sig(exc))
        viol.append({"sig": sig, "what": f"{stage}: {kind}: {what}"[:700], "case": case})

    out = oracle.whole_run(spec)
    t0, t1 = case["t0"], case["t1"]
    d = hrun.mktemp("c01-")
    cl.reset()
    try:
        pol = save_policy(spec)
        # ---- pre-store a subset under another chunking / configuration
        spec_b = hrun.with_cuts(spec, case["cuts_b"])
        for dt in case["prestore"]:
            if pol[dt] == "NEVER":
                continue
            st = hrun.make_context(spec_b, d, case["cfg_b"])
            try:
                with common.quiet():
                    st.make("0", dt, save=(dt,) if pol[dt] == "EXPLICIT" else (), progress_bar=False,
                            max_workers=case["cfg_b"].get("max_workers"))
                cnt["prestores"] = cnt.get("prestores", 0) + 1
            except Exception as e:  # noqa: BLE001
                if "Timeout" in type(e).__name__:
                    return viol, cnt, False, [f"timeout in prestore: {e}"]
                add("prestore", "exception", f"make({dt}) failed: {e!r}", e)
                return viol, cnt, False, []
        drng = random.Random(case["delete_seed"])
        for name in sorted(os.listdir(d)):
            if drng.random() < case["delete_p"]:
                hrun.rm(os.path.join(d, name))
        # ---- the request under test
        st = hrun.make_context(spec, d, case["cfg"])
        tgt = case["target"]
        try:
            chunks = hrun.get_chunks(st, "0", tgt, case["cfg"])
        except Exception as e:  # noqa: BLE001
            if "Timeout" in type(e).__name__:
                return viol, cnt, False, [f"timeout in request: {e}"]
            add("request", "exception", f"get_iter({tgt}) failed: {e!r}", e)
            return viol, cnt, False, []
        cnt["requests_completed"] = 1
        cnt["threaded_runs" if case["cfg"]["processor"] == "threaded_mailbox" else "single_thread_runs"] = 1
        cnt["chunks_checked"] = len(chunks)
        for e in oracle.check_chunks(chunks, out[tgt], t0, t1):
            add("request", "rows" if "rows" in e or "dtype" in e else "tiling", e)
        # ---- everything now stored must re-load to its whole-run result
        for dt in gen.all_types(spec):
            try:
                if not hrun.is_stored(spec, d, dt):
                    continue
                got = hrun.load_stored(spec, d, dt)
                cnt["reloads_checked"] = cnt.get("reloads_checked", 0) + 1
                if not oracle.rows_equal(got, out[dt]):
                    add("reload", "rows", f"stored {dt} differs from the whole-run result: got {got.tolist()} want {out[dt].tolist()}")
            except Exception as e:  # noqa: BLE001
                add("reload", "exception", f"loading stored {dt} failed: {e!r}", e)
        log, counts = cl.snapshot()
        for k, v in counts.items():
            cnt["law_" + k] = v
        for entry in log[:3]:
            add("law", entry["op"], f"{entry['what']} :: {entry['detail']}", op=entry["op"])
    finally:
        hrun.rm(d)
    nsrc_chunks = max(len(s["cuts"]) - 1 for s in spec["sources"])
    nontrivial = len(out[case["target"]]) >= 1 and nsrc_chunks >= 2 and cnt.get("requests_completed", 0) == 1
    return viol, cnt, nontrivial, []


def units(tier, seed):
    q = tier == "quick"
    n_units = 16 if q else 64
    per = 60 if q else 250
    us = [{"name": f"graphs-{k}", "seed": seed, "lo": k * per, "hi": (k + 1) * per} for k in range(n_units)]
    for k in range(3 if q else 8):
        us.append({"name": f"mp-{k}", "fam": "mp", "seed": seed, "lo": k * (4 if q else 30), "hi": (k + 1) * (4 if q else 30)})
    return us


def run_mp_case(seed, idx):
    """Multiprocessing path: plugins with parallel='process' are inlined into a ParallelSourcePlugin whose
    computations and (forked) savers run in a process pool."""
    import multiprocessing as _mp

    from vf.harness import mp_plugins as mp
    from vf.mon import storagemd

    # fork() from a process that has threads (mailboxes, monitors holding locks) can deadlock the child;
    # the pool workers are therefore started through a fork server (clean single-threaded parent)
    if _mp.get_start_method(allow_none=True) != "forkserver":
        _mp.set_start_method("forkserver", force=True)
        # the fork server imports strax once; pool workers forked from it start in milliseconds
        _mp.set_forkserver_preload(["strax", "vf.harness.mp_plugins"])

    rng = gen.rng_for(seed, "c01mp", idx)
    rows, end = gen.gen_disjoint_rows(rng, rng.randint(1, 8), 0, 1)
    t1 = end + rng.choice([0, 3])
    cuts = gen.gen_cuts(rng, rows, 0, t1, 1, max_inner=4)
    case = {"mp": True, "rows": rows, "cuts": cuts, "target": rng.choice(["mptop", "mptop", "mpma", "mpmb"]),
            "max_messages": rng.choice([4, 10]),
            # source in the pool too: strax then inlines the whole chain and its savers into one ParallelSourcePlugin
            "inline": rng.random() < 0.5}
    # three shapes: nothing inlined (source outside the pool, all plugins 'process': inlining would start from the
    # target); everything incl. the source inlined; inlining that starts from mprow, a plugin with a dependency
    case["shape"] = rng.choice(["plain", "source_inlined", "rowstart"])
    case["inline"] = case["shape"] != "plain"
    if rng.random() < 0.35:
        case["target"] = "mpwin"  # an overlap-window plugin behind the parallel chain (never inlined itself)
    reg = {"plain": mp.ALL_WIN, "source_inlined": mp.ALL_INLINE_WIN, "rowstart": mp.ALL_ROWSTART_WIN}[case["shape"]]
    viol, cnt = [], {}
    out = mp.whole_run(rows)
    out["mpwin"] = mp.whole_run_win(rows)
    d = hrun.mktemp("c01mp-")
    try:
        st = strax.Context(storage=[strax.DataDirectory(d)], register=reg,
                           config=dict(mp_rows=tuple(rows), mp_cuts=tuple(cuts)), allow_multiprocess=True,
                           allow_lazy=False, max_messages=case["max_messages"], timeout=120,
                           processors=["threaded_mailbox"])
        try:
            with common.quiet():
                chunks = list(st.get_iter("0", case["target"], progress_bar=False, max_workers=2))
        except Exception as e:  # noqa: BLE001
            if "Timeout" in type(e).__name__:
                return viol, cnt, case, [f"mp case {idx}: timeout {e}"]
            sig = {"stage": "request", "kind": "exception", "mp": True}
            sig.update(common.exc_sig(e))
            viol.append({"sig": sig, "what": f"multiprocess request failed: {e!r}", "case": case})
            return viol, cnt, case, []
        cnt["mp_runs"] = 1
        if case["inline"]:
            cnt["mp_inlined_saver_runs"] = 1
        for e in oracle.check_chunks(chunks, out[case["target"]], 0, t1):
            viol.append({"sig": {"stage": "request", "kind": "rows" if "rows" in e else "tiling", "mp": True},
                         "what": f"multiprocess: {e}", "case": case})
        st2 = strax.Context(storage=[strax.DataDirectory(d)], register=reg,
                            config=dict(mp_rows=tuple(rows), mp_cuts=tuple(cuts)), processors=["single_thread"],
                            forbid_creation_of=("*",))
        for dt in out:
            if st2.is_stored("0", dt):
                try:
                    with common.quiet():
                        ch = list(st2.get_iter("0", dt, progress_bar=False))
                    got = np.concatenate([c.data for c in ch])
                    cnt["mp_reloads"] = cnt.get("mp_reloads", 0) + 1
                    if not oracle.rows_equal(got, out[dt]):
                        viol.append({"sig": {"stage": "reload", "kind": "rows", "mp": True},
                                     "what": f"multiprocess: stored {dt} = {got.tolist()} != {out[dt].tolist()}", "case": case})
                    key = str(st2.key_for("0", dt))
                    for e in storagemd.metadata_errors(os.path.join(d, key), ch, run_id="0")[:2]:
                        viol.append({"sig": {"stage": "reload", "kind": "metadata", "mp": True},
                                     "what": f"multiprocess: metadata of {dt}: {e}", "case": case})
                except Exception as e:  # noqa: BLE001
                    sig = {"stage": "reload", "kind": "exception", "mp": True}
                    sig.update(common.exc_sig(e))
                    viol.append({"sig": sig, "what": f"multiprocess: stored {dt} does not load: {e!r}", "case": case})
    finally:
        hrun.rm(d)
    return viol, cnt, case, []


def run_unit(u):
    cl.install(strax)
    res = {"evaluations": 0, "hashes": [], "counters": {}, "samples": [], "violations": [], "inconclusive": []}
    if u.get("fam") == "mp":
        for idx in range(u["lo"], u["hi"]):
            viol, cnt, case, inc = run_mp_case(u["seed"], idx)
            res["evaluations"] += 1
            if len(case["rows"]) and len(case["cuts"]) >= 3 and cnt.get("mp_runs"):
                res["hashes"].append(common.chash(case))
            for k, v in cnt.items():
                res["counters"][k] = res["counters"].get(k, 0) + v
            res["violations"].extend(viol[:2])
            res["inconclusive"].extend(inc)
        return res
    for idx in range(u["lo"], u["hi"]):
        case = gen_case(u["seed"], idx)
        viol, cnt, nontrivial, inc = run_case(case)
        inc = [f"case {idx}: {x}" for x in inc]
        res["evaluations"] += 1
        if nontrivial:
            res["hashes"].append(common.chash(case))
        for k, v in cnt.items():
            res["counters"][k] = res["counters"].get(k, 0) + v
        if len(res["violations"]) < 20:
            res["violations"].extend(viol[:3])
        res["inconclusive"].extend(inc)
        if idx == u["lo"]:
            res["samples"].append({"target": case["target"], "cfg": case["cfg"], "prestore": case["prestore"],
                                   "plugins": [(p["name"], p["type"], p["deps"]) for p in case["spec"]["plugins"]],
                                   "cuts": {s["name"]: s["cuts"] for s in case["spec"]["sources"]},
                                   "rows": {s["name"]: s["rows"] for s in case["spec"]["sources"]}})
    return res


def replay(case):
    cl.install(strax)
    if case.get("mp"):
        return [{"sig": {"kind": "mp"}, "what": "multiprocess cases are re-run through the check itself (seeded)", "case": case}]
    viol, cnt, nontrivial, inc = run_case(case)
    for i in inc:
        print("INCONCLUSIVE:", i)
    return viol


def _exercise(n=60):
    """Run real cases so that every numba signature the units need (readonly arrays loaded from disk,
    all harness dtypes, ...) is compiled here: by the single cache writer (warm) and, for the functions
    strax does not cache (split_array), in the zygote before forking (prefork)."""
    hrun.warm_numba()
    cl.install(strax)
    for i in range(n):
        run_case(gen_case(4242, i))


def warm():
    _exercise()


def prefork():
    _exercise()
