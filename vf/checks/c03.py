"""C03 Saving then loading returns the same rows, ranges and consistent metadata.

Direct use of the real storage API: DataDirectory.saver(...).save_from(generator,
rechunk, executor) followed by DataDirectory.loader(key, executor). Dtype x chunk
sequence x compressor x rechunk x target size x executors on both sides.
"""
import os
import random
from concurrent.futures import Future, ThreadPoolExecutor

import numpy as np

from vf import common

common.setup_env()
strax = common.import_strax()
from vf.checks.meta import META  # noqa: E402
from vf.harness import run as hrun  # noqa: E402
from vf.mon import chunklaws as cl, storagemd  # noqa: E402
from vf.sched import coop, shims  # noqa: E402

PROPERTY = "C03"
LEVEL = "exploration"
TECHNIQUE = META["C03"]["technique"]
RULE = (
    "case = (structured dtype {time+endtime scalar, time+dt+length with 1-d and 2-d array fields, bool and titled "
    "fields}, rows incl. overlapping, contiguous chunk sequence incl. empty and zero-duration chunks, target "
    "size from one row to more than the run) drawn from VERIF_SEED; each case is run for every combination of "
    "compressor {blosc, zstd, lz4, bz2} x rechunk on/off x serial/thread-pool saving x serial/thread-pool "
    "loading (32 round trips, exhaustive per case); distinct = (case hash, combination); non-trivial = >= 1 row"
)
ASSUMPTIONS = [
    "chunk sequences obey the laws of chunking; rechunking may only merge chunks or cut in row-free gaps",
]
REQUIRED = {"round_trips": 1500, "rechunked_round_trips": 500, "pool_saves": 300, "pool_loads": 300,
            "metadata_checks": 1500, "rows_compared": 3000, "scheduled_pool_saves": 600, "scheduling_points": 20000,
            "distinct_pool_schedules": 200, "forked_saver_trips": 100, "concurrent_big_loads": 12}
UNIT_TIMEOUT = 1200
COMPRESSORS = ("blosc", "zstd", "lz4", "bz2")


def resolve(items):
    """All reads are submitted first and only then waited for (as the mailboxes do): they really run concurrently."""
    return [c.result() if isinstance(c, Future) else c for c in items]


def dtypes():
    return [
        strax.time_fields + [(("value", "x"), np.int64)],
        strax.time_dt_fields + [(("value", "x"), np.int32), (("vector field", "a"), np.float32, (3,)),
                                (("matrix field", "m"), np.int16, (2, 2)), (("flag", "f"), np.bool_)],
        strax.time_fields + [(("value", "x"), np.float64), (("small", "s"), np.uint8)],
    ]


def gen_case(seed, idx):
    rng = random.Random(f"{seed}:c03:{idx}")
    di = rng.randrange(3)
    coarse = rng.choice([1, 300])
    n = rng.randint(0, 14)
    t = rng.choice([0, 5]) * coarse
    t0 = t
    rows = []
    for i in range(n):
        t += rng.choice([0, 0, 1, 2, 15]) * coarse
        ln = rng.choice([1, 2, 3]) * coarse
        if rng.random() < 0.1:
            ln = 40 * coarse  # a long row: later, shorter rows (and > 1 us gaps between them) are nested in it
        rows.append((t, t + ln))
        if rng.random() < 0.7:
            t += ln
    end = max([t0] + [e for _, e in rows]) + rng.choice([0, 1, 20]) * coarse
    legal = [c for c in sorted(set([t0, end] + [s for s, _ in rows] + [e for _, e in rows]))
             if not any(s < c < e for s, e in rows)]
    k = rng.randint(0, min(6, len(legal)))
    cuts = [t0] + sorted(rng.choices(legal, k=k)) + [end]
    return {"dtype": di, "coarse": coarse, "rows": rows, "cuts": cuts, "target_rows": rng.choice([1, 2, 3, 5, 100]),
            "seed": rng.randint(0, 10 ** 6)}


def build(case):
    dt = dtypes()[case["dtype"]]
    names = np.dtype(dt).names
    rows = case["rows"]
    a = np.zeros(len(rows), dtype=dt)
    rng = random.Random(case["seed"])
    for i, (s, e) in enumerate(rows):
        a["time"][i] = s
        if "endtime" in names:
            a["endtime"][i] = e
        else:
            a["dt"][i] = case["coarse"]
            a["length"][i] = (e - s) // case["coarse"]
        a["x"][i] = i + 1
        if "a" in names:
            a["a"][i] = [rng.random() for _ in range(3)]
            a["m"][i] = [[rng.randint(0, 9), 1], [2, i]]
            a["f"][i] = i % 2
        if "s" in names:
            a["s"][i] = i * 7 % 256
    ends = storagemd.endtime(a)
    tsz = case["target_rows"] * np.dtype(dt).itemsize / 1e6
    taken = np.zeros(len(a), bool)
    chunks = []
    for s, e in zip(case["cuts"][:-1], case["cuts"][1:]):
        m = (a["time"] >= s) & (ends <= e) & ~taken
        if s == e:
            m[:] = False
        taken |= m
        chunks.append(strax.Chunk(data_type="dd", data_kind="dd", dtype=dt, run_id="0", start=int(s), end=int(e),
                                  data=a[m], target_size_mb=tsz))
    assert taken.all(), "harness: rows not covered by the cuts"
    return dt, a, chunks


def round_trip(case, comp, rechunk, save_pool, load_pool):
    dt, a, chunks = build(case)
    errs = []
    d = hrun.mktemp("c03-")
    pool = ThreadPoolExecutor(3) if (save_pool or load_pool) else None
    try:
        sfe = strax.DataDirectory(d)
        key = strax.DataKey("0", "dd", {"dd": ("P", "0", {})})
        md = dict(run_id="0", data_type="dd", data_kind="dd", dtype=np.dtype(dt), compressor=comp,
                  lineage=key.lineage, chunk_target_size_mb=chunks[0].target_size_mb)
        with common.quiet():
            saver = sfe.saver(key, md)
            saver.save_from((c for c in chunks), rechunk=rechunk, executor=pool if save_pool else None)
            got = resolve(list(sfe.loader(key, executor=pool if load_pool else None)))
        g = np.concatenate([c.data for c in got]) if got else a[:0]
        if not (g.dtype == a.dtype and len(g) == len(a) and g.tobytes() == a.tobytes()):
            errs.append(("rows", f"loaded rows differ: {len(g)} rows vs {len(a)} written"))
        if not got:
            errs.append(("range", "nothing loaded"))
        else:
            if got[0].start != chunks[0].start or got[-1].end != chunks[-1].end:
                errs.append(("range", f"loaded range [{got[0].start},{got[-1].end}) != written [{chunks[0].start},{chunks[-1].end})"))
            if any(x.end != y.start for x, y in zip(got[:-1], got[1:])):
                errs.append(("contiguity", "loaded chunks not contiguous"))
            wb = [c.start for c in chunks] + [chunks[-1].end]
            lb = [c.start for c in got] + [got[-1].end]
            if not rechunk:
                if lb != wb:
                    errs.append(("boundaries", f"boundaries changed without rechunking: {lb} vs {wb}"))
            else:
                ends = storagemd.endtime(a)
                for b in lb:
                    if b not in wb and np.any((a["time"] < b) & (ends > b)):
                        errs.append(("boundaries", f"rechunked boundary {b} straddles a row"))
            for c in got:
                for e in cl.chunk_errors(c):
                    errs.append(("chunk", e))
            dirname = os.path.join(d, str(key))
            for e in storagemd.metadata_errors(dirname, got, run_id="0"):
                errs.append(("metadata", e))
            if [x for x in os.listdir(d) if x.endswith("_temp")]:
                errs.append(("metadata", "temp directory left behind"))
        return errs, None, len(a)
    except Exception as e:  # noqa: BLE001
        return errs, e, len(a)
    finally:
        if pool:
            pool.shutdown()
        hrun.rm(d)


def verify_stored(d, key, a, chunks, rechunk, executor=None):
    """What a reader finds afterwards: rows, range, boundaries, chunk laws, metadata vs files."""
    errs = []
    sfe = strax.DataDirectory(d)
    got = resolve(list(sfe.loader(key, executor=executor)))
    g = np.concatenate([c.data for c in got]) if got else a[:0]
    if not (g.dtype == a.dtype and len(g) == len(a) and g.tobytes() == a.tobytes()):
        errs.append(("rows", f"loaded rows differ: {len(g)} rows vs {len(a)} written"))
    if not got:
        errs.append(("range", "nothing loaded"))
        return errs
    if got[0].start != chunks[0].start or got[-1].end != chunks[-1].end:
        errs.append(("range", f"loaded range [{got[0].start},{got[-1].end}) != written [{chunks[0].start},{chunks[-1].end})"))
    if any(x.end != y.start for x, y in zip(got[:-1], got[1:])):
        errs.append(("contiguity", "loaded chunks not contiguous"))
    wb = [c.start for c in chunks] + [chunks[-1].end]
    lb = [c.start for c in got] + [got[-1].end]
    if not rechunk and lb != wb:
        errs.append(("boundaries", f"boundaries changed without rechunking: {lb} vs {wb}"))
    dirname = os.path.join(d, str(key))
    for e in storagemd.metadata_errors(dirname, got, run_id="0"):
        errs.append(("metadata", e))
    left = [x for x in os.listdir(d) if x.endswith("_temp")] + [x for x in os.listdir(dirname) if x.endswith("_temp")]
    if left:
        errs.append(("metadata", f"temporary files left behind: {left[:4]}"))
    return errs


def forked_trip(case, comp):
    """Forked ('inlined') savers as a ParallelSourcePlugin uses them: a pickled copy of the saver writes each chunk
    and its per-chunk metadata file (in a pool process), the parent's saver object only closes."""
    import pickle

    dt, a, chunks = build(case)
    d = hrun.mktemp("c03f-")
    out = {"errs": [], "exc": None, "n": len(a)}
    try:
        sfe = strax.DataDirectory(d)
        key = strax.DataKey("0", "dd", {"dd": ("P", "0", {})})
        md = dict(run_id="0", data_type="dd", data_kind="dd", dtype=np.dtype(dt), compressor=comp,
                  lineage=key.lineage, chunk_target_size_mb=chunks[0].target_size_mb)
        try:
            with common.quiet():
                parent = sfe.saver(key, md)
                parent.is_forked = True
                blob = pickle.dumps(parent)
                for i, c in enumerate(chunks):
                    child = pickle.loads(blob)  # every task gets its own copy, like a pool worker
                    child.save(chunk=c, chunk_i=i)
                parent.close()
                out["errs"].extend(verify_stored(d, key, a, chunks, False))
        except Exception as e:  # noqa: BLE001
            out["exc"] = e
        return out
    finally:
        hrun.rm(d)


def big_pool_trip(comp, seed, rounds, nchunks=12, nrows=150000, threads=8):
    """Chunk files of realistic size (hundreds of kB) read concurrently by a real thread pool: the decompression
    itself runs in parallel (the GIL is released inside the compressors)."""
    dt = dtypes()[0]
    rng = np.random.default_rng(seed)
    chunks, arrays = [], []
    t = 0
    for i in range(nchunks):
        a = np.zeros(nrows, dtype=dt)
        a["time"] = t + np.arange(nrows) * 10
        a["endtime"] = a["time"] + 5
        a["x"] = rng.integers(0, 2 ** 40, nrows)
        end = t + nrows * 10
        chunks.append(strax.Chunk(data_type="dd", data_kind="dd", dtype=dt, run_id="0", start=t, end=end, data=a, target_size_mb=200))
        arrays.append(a)
        t = end
    full = np.concatenate(arrays)
    d = hrun.mktemp("c03b-")
    errs = []
    pool = ThreadPoolExecutor(threads)
    try:
        sfe = strax.DataDirectory(d)
        key = strax.DataKey("0", "dd", {"dd": ("P", "0", {})})
        md = dict(run_id="0", data_type="dd", data_kind="dd", dtype=np.dtype(dt), compressor=comp,
                  lineage=key.lineage, chunk_target_size_mb=200)
        with common.quiet():
            sfe.saver(key, md).save_from(iter(chunks), rechunk=False)
        for r in range(rounds):
            try:
                with common.quiet():
                    got = resolve(list(sfe.loader(key, executor=pool)))
                g = np.concatenate([c.data for c in got])
                if g.tobytes() != full.tobytes():
                    bad = int((g["x"] != full["x"]).sum()) if len(g) == len(full) else -1
                    errs.append(("rows", f"round {r}: concurrent loading returned other bytes than were written ({bad} rows differ)"))
                    break
            except Exception as e:  # noqa: BLE001
                errs.append(("exception", f"round {r}: concurrent loading of intact files failed: {e!r}", e))
                break
        return errs
    finally:
        pool.shutdown()
        hrun.rm(d)


def sched_trip(case, comp, rechunk, workers, mode, sseed):
    """save_from through a worker pool whose threads are scheduled adversarially (cooperative scheduler:
    the order in which queued chunk writes start and finish relative to the saver is the chooser's)."""
    dt, a, chunks = build(case)
    d = hrun.mktemp("c03s-")
    out = {"errs": [], "exc": None, "steps": 0, "sig": None, "n": len(a)}
    try:
        sfe = strax.DataDirectory(d)
        key = strax.DataKey("0", "dd", {"dd": ("P", "0", {})})
        md = dict(run_id="0", data_type="dd", data_kind="dd", dtype=np.dtype(dt), compressor=comp,
                  lineage=key.lineage, chunk_target_size_mb=chunks[0].target_size_mb)
        chooser = coop.RandomChooser(sseed) if mode == "random" else coop.PCTChooser(sseed, depth=3, horizon=120)
        sched = coop.Sched(chooser=chooser, max_steps=50000)
        with shims.coop_pipeline(sched):
            sched.register_main()
            pool = coop.Executor(workers)
            try:
                with common.quiet():
                    saver = sfe.saver(key, md)
                    saver.save_from((c for c in chunks), rechunk=rechunk, executor=pool)
                    # like ThreadPoolExecutor.shutdown(wait=True): writes that nobody waited for finish now
                    pool.shutdown(wait=True)
            except coop.Deadlock as e:
                out["errs"].append(("deadlock", str(e)[:300]))
                return out
            except (coop.Abort,):
                raise
            except Exception as e:  # noqa: BLE001
                out["exc"] = e
                return out
            finally:
                out["steps"] = sched.steps
                out["sig"] = sched.signature()
        try:
            with common.quiet():
                out["errs"].extend(verify_stored(d, key, a, chunks, rechunk))
        except Exception as e:  # noqa: BLE001
            out["exc"] = e
        return out
    finally:
        hrun.rm(d)


def fault_trip(case, comp, rechunk, use_pool, j):
    """The j-th chunk write fails (OSError from save_file, as on a full disk). Whatever the saver then leaves
    behind, the completion marker must agree with the files: data that a reader is offered as complete (final
    directory name, metadata without an exception entry) must have every listed chunk file and the written rows."""
    dt, a, chunks = build(case)
    d = hrun.mktemp("c03f-")
    out = {"errs": [], "exc": None, "fired": False, "raised": False, "n": len(a)}
    pool = ThreadPoolExecutor(2) if use_pool else None
    orig_save = strax.save_file
    calls = [0]

    def failing_save(f, data, compressor="zstd"):
        calls[0] += 1
        if calls[0] == j + 1:
            out["fired"] = True
            raise OSError(28, "No space left on device (injected)")
        return orig_save(f, data, compressor)

    try:
        sfe = strax.DataDirectory(d)
        key = strax.DataKey("0", "dd", {"dd": ("P", "0", {})})
        md = dict(run_id="0", data_type="dd", data_kind="dd", dtype=np.dtype(dt), compressor=comp,
                  lineage=key.lineage, chunk_target_size_mb=chunks[0].target_size_mb)
        strax.save_file = failing_save
        try:
            with common.quiet():
                saver = sfe.saver(key, md)
                saver.save_from((c for c in chunks), rechunk=rechunk, executor=pool)
        except Exception:  # noqa: BLE001
            out["raised"] = True
        finally:
            strax.save_file = orig_save
            if pool:
                pool.shutdown(wait=True)
        if not out["fired"]:
            return out
        dirname = os.path.join(d, str(key))
        if os.path.isdir(dirname):
            import json as _json
            mdp = [x for x in os.listdir(dirname) if x.endswith("metadata.json")]
            meta = _json.load(open(os.path.join(dirname, mdp[0]))) if mdp else None
            if meta is not None and "exception" not in meta and meta.get("writing_ended"):
                # offered as complete: then it has to be complete
                missing = [c["filename"] for c in meta.get("chunks", [])
                           if c.get("filename") and not os.path.exists(os.path.join(dirname, c["filename"]))]
                if missing:
                    out["errs"].append(("marker", f"data marked complete after a failed chunk write, but files {missing[:3]} are missing"))
                else:
                    try:
                        with common.quiet():
                            got = resolve(list(strax.DataDirectory(d).loader(key)))
                        g = np.concatenate([c.data for c in got]) if got else a[:0]
                        if g.tobytes() != a.tobytes():
                            out["errs"].append(("marker", f"data marked complete after a failed chunk write holds {len(g)} of {len(a)} rows"))
                    except Exception as e:  # noqa: BLE001
                        out["errs"].append(("marker", f"data marked complete after a failed chunk write cannot be loaded: {e!r}"[:300]))
        return out
    except Exception as e:  # noqa: BLE001
        out["exc"] = e
        return out
    finally:
        strax.save_file = orig_save
        hrun.rm(d)


def units(tier, seed):
    q = tier == "quick"
    n = 16 if q else 64
    per = 6 if q else 40
    us = [{"name": f"trips-{k}", "fam": "trips", "seed": seed, "lo": k * per, "hi": (k + 1) * per} for k in range(n)]
    ns = 16 if q else 48
    pers = 6 if q else 60
    us += [{"name": f"sched-{k}", "fam": "sched", "seed": seed, "lo": 10 ** 6 + k * pers, "hi": 10 ** 6 + (k + 1) * pers,
            "reps": 3 if q else 6} for k in range(ns)]
    us.append({"name": "bigpool", "fam": "bigpool", "seed": seed, "rounds": 4 if q else 25})
    return us


def run_unit(u):
    res = {"evaluations": 0, "hashes": [], "counters": {}, "samples": [], "violations": [], "inconclusive": []}
    cnt = res["counters"]
    if u.get("fam") == "bigpool":
        for comp in COMPRESSORS:
            errs = big_pool_trip(comp, u["seed"], u["rounds"])
            res["evaluations"] += 1
            res["hashes"].append(common.chash(["bigpool", comp, u["seed"]]))
            cnt["concurrent_big_loads"] = cnt.get("concurrent_big_loads", 0) + u["rounds"]
            for e in errs[:1]:
                sig = {"kind": e[0], "rechunk": False, "save_pool": False, "load_pool": "big", "compressor": comp}
                if len(e) > 2:
                    sig.update(common.exc_sig(e[2]))
                res["violations"].append({"sig": sig, "what": f"{e[0]}: {e[1]}"[:500], "case": {"bigpool": comp, "seed": u["seed"], "rounds": u["rounds"]}})
        res["samples"].append({"bigpool": "12 chunks x 150000 rows x 4 compressors, 8 loader threads"})
        return res
    if u.get("fam") == "sched":
        sigs = set()
        for idx in range(u["lo"], u["hi"]):
            case = gen_case(u["seed"], idx)
            ch = common.chash(case)
            rng = random.Random(f"{u['seed']}:c03s:{idx}")
            for rechunk in (False, True):
                for workers in (1, 2, 3):
                    for rep in range(u["reps"]):
                        combo = {"compressor": rng.choice(COMPRESSORS), "rechunk": rechunk, "workers": workers,
                                 "mode": rng.choice(["random", "random", "pct"]), "sseed": rng.randint(0, 10 ** 6)}
                        o = sched_trip(case, combo["compressor"], rechunk, workers, combo["mode"], combo["sseed"])
                        res["evaluations"] += 1
                        cnt["scheduled_pool_saves"] = cnt.get("scheduled_pool_saves", 0) + 1
                        cnt["scheduling_points"] = cnt.get("scheduling_points", 0) + o["steps"]
                        cnt["metadata_checks"] = cnt.get("metadata_checks", 0) + 1
                        if o["sig"] not in sigs:
                            sigs.add(o["sig"])
                            cnt["distinct_pool_schedules"] = cnt.get("distinct_pool_schedules", 0) + 1
                        if o["n"]:
                            res["hashes"].append(common.chash([ch, combo, o["sig"]]))
                        if o["exc"] is not None and len(res["violations"]) < 20:
                            sig = {"kind": "exception", "rechunk": rechunk, "save_pool": "scheduled"}
                            sig.update(common.exc_sig(o["exc"]))
                            res["violations"].append({"sig": sig, "what": f"scheduled pool save / reload failed: {o['exc']!r}"[:500],
                                                      "case": dict(case, sched_combo=combo)})
                        for kind, e in o["errs"][:2]:
                            if len(res["violations"]) < 20:
                                res["violations"].append({"sig": {"kind": kind, "rechunk": rechunk, "save_pool": "scheduled"},
                                                          "what": f"{kind}: {e}", "case": dict(case, sched_combo=combo)})
            # forked savers (no rechunking: they are only used for data that is not rechunked on save)
            for comp in COMPRESSORS[:2]:
                o = forked_trip(case, comp)
                res["evaluations"] += 1
                cnt["forked_saver_trips"] = cnt.get("forked_saver_trips", 0) + 1
                cnt["metadata_checks"] = cnt.get("metadata_checks", 0) + 1
                if o["n"]:
                    res["hashes"].append(common.chash([ch, "forked", comp]))
                if o["exc"] is not None and len(res["violations"]) < 20:
                    sig = {"kind": "exception", "rechunk": False, "save_pool": "forked"}
                    sig.update(common.exc_sig(o["exc"]))
                    res["violations"].append({"sig": sig, "what": f"forked-saver round trip failed: {o['exc']!r}"[:500],
                                              "case": dict(case, forked_combo={"compressor": comp})})
                for kind, e in o["errs"][:2]:
                    if len(res["violations"]) < 20:
                        res["violations"].append({"sig": {"kind": kind, "rechunk": False, "save_pool": "forked"},
                                                  "what": f"{kind}: {e}", "case": dict(case, forked_combo={"compressor": comp})})
            # a failing chunk write at every position, serial and pool: completion marker vs files
            nwr = len(case["cuts"])
            fcomp = COMPRESSORS[idx % len(COMPRESSORS)]
            for rechunk in (False, True):
                for use_pool in (False, True):
                    for j in range(0, nwr + 1):
                        o = fault_trip(case, fcomp, rechunk, use_pool, j)
                        if not o["fired"]:
                            break
                        res["evaluations"] += 1
                        cnt["failed_write_trips"] = cnt.get("failed_write_trips", 0) + 1
                        if o["raised"]:
                            cnt["failed_write_raised"] = cnt.get("failed_write_raised", 0) + 1
                        res["hashes"].append(common.chash([ch, "fault", rechunk, use_pool, j]))
                        combo = {"compressor": fcomp, "rechunk": rechunk, "save_pool": use_pool, "failing_write": j}
                        if o["exc"] is not None and len(res["violations"]) < 20:
                            sig = {"kind": "exception", "rechunk": rechunk, "save_pool": "fault"}
                            sig.update(common.exc_sig(o["exc"]))
                            res["violations"].append({"sig": sig, "what": f"failed-write harness error: {o['exc']!r}"[:500],
                                                      "case": dict(case, fault_combo=combo)})
                        for kind, e in o["errs"][:2]:
                            if len(res["violations"]) < 20:
                                res["violations"].append({"sig": {"kind": kind, "rechunk": rechunk, "save_pool": use_pool},
                                                          "what": f"{kind}: {e}", "case": dict(case, fault_combo=combo)})
            if not res["samples"]:
                res["samples"].append(dict(case, combos="rechunk x workers 1..3 x seeded random / PCT schedules of the pool"))
        return res
    for idx in range(u["lo"], u["hi"]):
        case = gen_case(u["seed"], idx)
        ch = common.chash(case)
        for comp in COMPRESSORS:
            for rechunk in (False, True):
                for sp in (False, True):
                    for lp in (False, True):
                        combo = {"compressor": comp, "rechunk": rechunk, "save_pool": sp, "load_pool": lp}
                        errs, exc, n = round_trip(case, comp, rechunk, sp, lp)
                        res["evaluations"] += 1
                        cnt["round_trips"] = cnt.get("round_trips", 0) + 1
                        cnt["rows_compared"] = cnt.get("rows_compared", 0) + n
                        cnt["metadata_checks"] = cnt.get("metadata_checks", 0) + 1
                        if rechunk:
                            cnt["rechunked_round_trips"] = cnt.get("rechunked_round_trips", 0) + 1
                        if sp:
                            cnt["pool_saves"] = cnt.get("pool_saves", 0) + 1
                        if lp:
                            cnt["pool_loads"] = cnt.get("pool_loads", 0) + 1
                        if n:
                            res["hashes"].append(common.chash([ch, combo]))
                        if exc is not None and len(res["violations"]) < 20:
                            sig = {"kind": "exception", "rechunk": rechunk, "save_pool": sp, "load_pool": lp}
                            sig.update(common.exc_sig(exc))
                            res["violations"].append({"sig": sig, "what": f"round trip failed: {exc!r}", "case": dict(case, combo=combo)})
                        for kind, e in errs[:2]:
                            if len(res["violations"]) < 20:
                                res["violations"].append({"sig": {"kind": kind, "rechunk": rechunk, "save_pool": sp, "load_pool": lp},
                                                          "what": f"{kind}: {e}", "case": dict(case, combo=combo)})
        if not res["samples"]:
            res["samples"].append(dict(case, combos="4 compressors x rechunk x save pool x load pool"))
    return res


def replay(case):
    if "bigpool" in case:
        errs = big_pool_trip(case["bigpool"], case["seed"], max(10, case["rounds"]))
        return [{"sig": {"kind": e[0]}, "what": e[1], "case": case} for e in errs]
    if "forked_combo" in case:
        base = {k: v for k, v in case.items() if k != "forked_combo"}
        o = forked_trip(base, case["forked_combo"]["compressor"])
        out = []
        if o["exc"] is not None:
            sig = {"kind": "exception"}
            sig.update(common.exc_sig(o["exc"]))
            out.append({"sig": sig, "what": repr(o["exc"]), "case": case})
        for kind, e in o["errs"]:
            out.append({"sig": {"kind": kind}, "what": e, "case": case})
        return out
    if "fault_combo" in case:
        c = case["fault_combo"]
        base = {k: v for k, v in case.items() if k != "fault_combo"}
        o = fault_trip(base, c["compressor"], c["rechunk"], c["save_pool"], c["failing_write"])
        out = []
        if o["exc"] is not None:
            sig = {"kind": "exception"}
            sig.update(common.exc_sig(o["exc"]))
            out.append({"sig": sig, "what": repr(o["exc"]), "case": case})
        for kind, e in o["errs"]:
            out.append({"sig": {"kind": kind}, "what": e, "case": case})
        return out
    if "sched_combo" in case:
        c = case["sched_combo"]
        base = {k: v for k, v in case.items() if k != "sched_combo"}
        o = sched_trip(base, c["compressor"], c["rechunk"], c["workers"], c["mode"], c["sseed"])
        out = []
        if o["exc"] is not None:
            sig = {"kind": "exception"}
            sig.update(common.exc_sig(o["exc"]))
            out.append({"sig": sig, "what": repr(o["exc"]), "case": case})
        for kind, e in o["errs"]:
            out.append({"sig": {"kind": kind}, "what": e, "case": case})
        return out
    c = case["combo"]
    base = {k: v for k, v in case.items() if k != "combo"}
    errs, exc, n = round_trip(base, c["compressor"], c["rechunk"], c["save_pool"], c["load_pool"])
    out = []
    if exc is not None:
        sig = {"kind": "exception"}
        sig.update(common.exc_sig(exc))
        out.append({"sig": sig, "what": repr(exc), "case": case})
    for kind, e in errs:
        out.append({"sig": {"kind": kind}, "what": e, "case": case})
    return out


def _exercise():
    for i in range(4):
        case = gen_case(4242, i)
        for comp in COMPRESSORS:
            round_trip(case, comp, True, False, False)
        sched_trip(case, "blosc", True, 2, "random", i)


def warm():
    _exercise()


def prefork():
    _exercise()
