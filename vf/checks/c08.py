"""C08 Plugins see time-aligned inputs and receive each input row exactly once.

A recording consumer plugin ('gather') depends on 1..4 source data types of 1..3 data
kinds, each delivered in its own independent law-abiding chunking (same-kind sources
carry the same row intervals but are cut differently). Every compute call is logged
(start, end, per-dependency row ids) and checked per call (all inputs inside one
identical interval, same-kind inputs row-aligned, calls adjacent) and per run (every
input row delivered exactly once, in order; nothing silently dropped).
"""
import itertools
import os

import numpy as np

from vf import common

common.setup_env()
strax = common.import_strax()
from vf.checks.meta import META  # noqa: E402
from vf.harness import gen, oracle, run as hrun, plugins as hp  # noqa: E402
from vf.mon import chunklaws as cl  # noqa: E402

PROPERTY = "C08"
LEVEL = "exploration"
TECHNIQUE = META["C08"]["technique"]
RULE = (
    "case = (1..4 dependencies over 1..3 kinds, rows per kind, independent chunking per dependency incl. empty, "
    "zero-duration, leading/trailing zero-duration chunks, one giant vs many tiny, processor, save policy of the "
    "consumer, optionally one dependency ending early); small scope enumerated exhaustively (distinct by "
    "construction), random beyond (distinct by hash); non-trivial = at least one compute call was recorded and "
    "at least two dependencies or two chunks were involved"
)
ASSUMPTIONS = [
    "rows have positive length; same-kind dependencies contain the same row intervals (strax's own requirement)",
    "the recording happens inside the harness plugin's compute, i.e. at the plugin boundary strax promises",
]
REQUIRED = {"compute_calls": 500, "runs_completed": 200, "rows_delivered": 500, "same_kind_merges": 50,
            "early_end_cases": 10, "mp_join_cases": 10, "mp_leftover_cases": 5}
UNIT_TIMEOUT = 1200


def build_spec(case):
    srcs = []
    for d in case["deps"]:
        srcs.append({"name": d["name"], "kind": d["kind"], "field": d["field"], "rows": d["rows"], "cuts": d["cuts"]})
    cons = {"name": "cons", "type": "gather", "deps": [d["name"] for d in case["deps"]],
            "save_when": case["policy"], "rechunk_on_save": False}
    return {"sources": srcs, "plugins": [cons]}


def features(case):
    f = set()
    for d in case["deps"]:
        f |= gen.cut_features(d["cuts"])
    return f


def run_case(case):
    viol = []
    cnt = {}
    feats = features(case)

    def add(kind, what, exc=None, **extra):
        sig = {"kind": kind, "f_trailing_zero": "trailing_zero_duration" in feats, "early_end": bool(case.get("early_end"))}
        sig.update(extra)
        if exc is not None:
            sig.update(common.exc_sig(exc))
        viol.append({"sig": sig, "what": f"{kind}: {what}"[:700], "case": case})

    spec = build_spec(case)
    cfg = {"processor": case["processor"], "allow_lazy": case.get("lazy", True), "max_messages": 60, "timeout": 60}
    hp.reset_events()
    st = hrun.make_context(spec, None, cfg)
    exc = None
    try:
        chunks = hrun.get_chunks(st, "0", "cons", cfg)
    except Exception as e:  # noqa: BLE001
        exc = e
        if "Timeout" in type(e).__name__:
            return viol, cnt, False, [f"timeout: {e}"]
    evs = [e for e in hp.events() if e["p"] == "cons"]
    cnt["compute_calls"] = len(evs)
    kinds = {d["name"]: d["kind"] for d in case["deps"]}
    # ---- per call
    prev_end = None
    for e in evs:
        s, en = e["start"], e["end"]
        for k, rg in e["ranges"].items():
            if rg is not None and (rg[0] < s or rg[1] > en):
                add("call-range", f"call [{s},{en}): input kind {k} has rows spanning [{rg[0]},{rg[1]}]")
        by_kind = {}
        for d in kinds:
            by_kind.setdefault(kinds[d], []).append(d)
        for k, ds in by_kind.items():
            if len(ds) > 1:
                cnt["same_kind_merges"] = cnt.get("same_kind_merges", 0) + 1
                ids = [[v % 1000 for v in e["rows"][d]] for d in ds]
                if any(i != ids[0] for i in ids[1:]):
                    add("misaligned", f"call [{s},{en}): same-kind inputs {ds} not row-aligned: {ids}")
        if prev_end is not None and s != prev_end:
            add("not-adjacent", f"call starts at {s} but the previous call ended at {prev_end}")
        prev_end = en
    # ---- per run
    all_same_range = not case.get("early_end")
    if exc is None:
        cnt["runs_completed"] = 1
        for d in case["deps"]:
            got = [v % 1000 for e in evs for v in e["rows"][d["name"]]]
            want = list(range(len(d["rows"])))
            cnt["rows_delivered"] = cnt.get("rows_delivered", 0) + len(got)
            if got != want:
                if all_same_range or case["policy"] == "ALWAYS":
                    add("rows-lost-or-duplicated",
                        f"dependency {d['name']}: delivered row ids {got}, input has {want} (returned normally)")
        if all_same_range and evs:
            t0, t1 = case["t0"], case["t1"]
            if evs[0]["start"] != t0 or evs[-1]["end"] != t1:
                add("coverage", f"calls cover [{evs[0]['start']},{evs[-1]['end']}) but the run is [{t0},{t1})")
    else:
        if all_same_range:
            add("exception", f"run with identical dependency ranges failed: {exc!r}", exc)
        else:
            cnt["early_end_raised"] = 1
    if case.get("early_end"):
        cnt["early_end_cases"] = 1
    nontrivial = len(evs) >= 1 and (len(case["deps"]) >= 2 or max(len(d["cuts"]) for d in case["deps"]) > 2)
    return viol, cnt, nontrivial, []


def mkdeps(layout, rowsets, cutsets, t0, t1):
    """layout: list of kind letters per dependency, e.g. ['a','a','b']."""
    deps = []
    per_kind = {}
    for i, k in enumerate(layout):
        j = per_kind.get(k, 0)
        per_kind[k] = j + 1
        rows = [(s, e, 1000 * (i + 1) + r) for r, (s, e) in enumerate(rowsets[k])]
        deps.append({"name": f"{k}{j}", "kind": "k" + k, "field": f"v{j}", "rows": rows, "cuts": cutsets[i]})
    return deps


def gen_random(seed, idx):
    rng = gen.rng_for(seed, "c08", idx)
    nk = rng.randint(1, 3)
    layout = []
    for k in "abc"[:nk]:
        layout += [k] * rng.choice([1, 1, 2] if len(layout) < 3 else [1])
    layout = layout[:4]
    rng.shuffle(layout)
    t0 = rng.choice([0, 3])
    rowsets = {}
    t1 = t0 + 1
    for k in set(layout):
        rows = []
        t = t0
        for _ in range(rng.randint(0, 6)):
            t += rng.choice([0, 0, 1, 2, 4])
            ln = rng.choice([1, 1, 2, 3, 6])
            rows.append((t, t + ln))
            if rng.random() < 0.65:
                t += ln
        rowsets[k] = rows
        t1 = max([t1] + [e for _, e in rows])
    t1 += rng.choice([0, 0, 2])
    cutsets = []
    early = rng.random() < 0.12 and len(layout) >= 2
    for i, k in enumerate(layout):
        rows3 = [(s, e, 0) for s, e in rowsets[k]]
        cuts = gen.gen_cuts(rng, rows3, t0, t1, 1, allow_trailing_zero=rng.random() < 0.3)
        cutsets.append(cuts)
    case = {"t0": t0, "t1": t1, "processor": rng.choice(["single_thread", "threaded_mailbox"]),
            "lazy": rng.random() < 0.5, "policy": rng.choice(["ALWAYS", "ALWAYS", "NEVER"])}
    deps = mkdeps(layout, rowsets, cutsets, t0, t1)
    if early:
        # one dependency of a kind that occurs once ends early: its chunks stop at a legal point before t1
        singles = [d for d in deps if sum(1 for x in deps if x["kind"] == d["kind"]) == 1]
        if singles:
            d = rng.choice(singles)
            legal = [c for c in gen.legal_cuts(d["rows"], t0, t1) if t0 < c < t1]
            if legal:
                c = rng.choice(legal)
                d["cuts"] = [x for x in d["cuts"] if x < c] + [c]
                d["rows"] = [r for r in d["rows"] if r[1] <= c]
                case["early_end"] = True
    case["deps"] = deps
    return case


def enum_small(G, shard, nshards, processors=("single_thread", "threaded_mailbox")):
    """Exhaustive: kind a (two same-kind deps, <= 2 rows) + kind b (one dep, <= 1 row), all cut subsets."""
    from vf.harness.intervals import all_intervals, sorted_lists

    ivs = all_intervals(G)
    k = 0
    for na in range(0, 3):
        for ra in sorted_lists(na, ivs):
            for nb in range(0, 2):
                for rb in sorted_lists(nb, ivs):
                    t0, t1 = 0, G
                    la = [c for c in range(1, G) if not any(s < c < e for s, e in ra)]
                    lb = [c for c in range(1, G) if not any(s < c < e for s, e in rb)]
                    subs_a = [cs for r in range(0, 3) for cs in itertools.combinations(la, r)]
                    subs_b = [cs for r in range(0, 3) for cs in itertools.combinations(lb, r)]
                    for ca in subs_a:
                        for cb in subs_b:
                            k += 1
                            if k % nshards != shard:
                                continue
                            # the second same-kind dependency uses the complementary cut set
                            ca2 = tuple(c for c in la if c not in ca)[:2]
                            for tz in (False, True):
                                cuts = [[t0, *ca, t1], [t0, *ca2, t1], [t0, *cb, t1] + ([t1] if tz else [])]
                                deps = mkdeps(["a", "a", "b"], {"a": list(ra), "b": list(rb)}, cuts, t0, t1)
                                yield {"t0": t0, "t1": t1, "processor": processors[k % len(processors)],
                                       "lazy": bool(k % 3), "policy": "ALWAYS", "deps": deps}


def units(tier, seed):
    q = tier == "quick"
    us = []
    nsh = 8 if q else 32
    for sh in range(nsh):
        us.append({"name": f"enum-{sh}", "fam": "enum", "G": 3 if q else 4, "shard": sh, "nshards": nsh})
    for k in range(8 if q else 32):
        us.append({"name": f"rand-{k}", "fam": "rand", "seed": seed, "lo": k * (150 if q else 1500),
                   "hi": (k + 1) * (150 if q else 1500)})
    for k in range(2 if q else 6):
        us.append({"name": f"mpjoin-{k}", "fam": "mpjoin", "seed": seed * 100 + k, "n": 8 if q else 30})
    return us


# ---------------------------------------------------------------- the same plugin inlined into a process pool
def mp_join_cases(seed, n):
    """Two inputs of different kinds for a saved-by-default plugin with parallel='process' (+ a parallel plugin
    behind it, so that strax inlines both into a ParallelSourcePlugin). Half of the cases leave undeliverable
    rows (the second input goes on after the pacemaker has ended)."""
    out = []
    for i in range(n):
        rng = gen.rng_for(seed, "c08mp", i)
        rows_a, end_a = gen.gen_disjoint_rows(rng, rng.randint(1, 5), 0, 1)
        rows_b, end_b = gen.gen_disjoint_rows(rng, rng.randint(1, 5), 0, 1)
        leftover = i % 2 == 1
        if leftover:
            t_a = end_a + rng.choice([0, 2])
            # b goes on beyond the end of a and has a row there
            rows_b = [r for r in rows_b if r[1] <= t_a] + [(t_a + 1, t_a + 3, 77)]
            t_b = t_a + rng.choice([3, 6])
        else:
            t_a = t_b = max(end_a, end_b) + rng.choice([0, 2])
        rows_b = [(s, e, 1000 + k) for k, (s, e, _) in enumerate(rows_b)]
        cuts_a = gen.gen_cuts(rng, rows_a, 0, t_a, 1, max_inner=3, allow_zero=False)
        cuts_b = gen.gen_cuts(rng, rows_b, 0, t_b, 1, max_inner=3, allow_zero=False)
        if leftover and cuts_b[-2] > t_a:
            cuts_b = [c for c in cuts_b if c <= t_a or c == t_b]  # the leftover row sits in b's LAST chunk
        out.append({"mp_join": True, "rows_a": rows_a, "rows_b": rows_b, "cuts_a": cuts_a, "cuts_b": cuts_b, "leftover": leftover})
    return out


def run_mp_join(case):
    import multiprocessing as _mp

    from vf.harness import mp_plugins as mp

    if _mp.get_start_method(allow_none=True) != "forkserver":
        _mp.set_start_method("forkserver", force=True)
        _mp.set_forkserver_preload(["strax", "vf.harness.mp_plugins"])
    cfg = dict(mpj_rows_a=tuple(map(tuple, case["rows_a"])), mpj_rows_b=tuple(map(tuple, case["rows_b"])),
               mpj_cuts_a=tuple(case["cuts_a"]), mpj_cuts_b=tuple(case["cuts_b"]))
    outcomes = {}
    calls = {}
    for mode in ("single_thread", "threaded", "process_pool_inlined"):
        d = hrun.mktemp("c08mp-")
        log = d.rstrip("/") + ".calls"
        cfg["mpj_log"] = log
        try:
            kw = dict(processors=["single_thread"]) if mode == "single_thread" else dict(processors=["threaded_mailbox"], allow_lazy=False)
            if mode == "process_pool_inlined":
                kw["allow_multiprocess"] = True
            st = strax.Context(storage=[strax.DataDirectory(d)], register=mp.JOIN, config=cfg, timeout=60, max_messages=10, **kw)
            try:
                with common.quiet():
                    a = st.get_array("0", "mpjdown", progress_bar=False, max_workers=2 if mode == "process_pool_inlined" else None)
                outcomes[mode] = ("rows", a["v0"].tolist())
            except Exception as e:  # noqa: BLE001
                if "Timeout" in type(e).__name__:
                    outcomes[mode] = ("timeout", str(e)[:100])
                else:
                    outcomes[mode] = ("error", type(e).__name__ + ": " + str(e)[:120])
        finally:
            hrun.rm(d)
            if os.path.exists(log):
                with open(log) as f:
                    calls[mode] = sorted(tuple(map(int, ln.split()[1:3])) for ln in f if ln.strip())
                os.remove(log)
    viol = []
    for mode, cs in calls.items():
        if outcomes[mode][0] != "rows":
            continue
        dup = sorted({c_ for c_ in cs if cs.count(c_) > 1 and c_[1] > c_[0]})  # zero-duration chunks may repeat
        if dup or any(a[1] != b[0] for a, b in zip(cs[:-1], cs[1:])):
            viol.append({"sig": {"kind": "calls-not-exactly-once", "mode": mode, "leftover": case["leftover"]},
                         "what": f"calls-not-exactly-once: the two-output plugin behind the join was called for the intervals {cs} "
                                 f"in mode {mode} (every interval once, adjacent intervals expected)"[:600], "case": case})
    ref = outcomes["single_thread"]
    for mode in ("threaded", "process_pool_inlined"):
        o = outcomes[mode]
        if o[0] == "timeout" or ref[0] == "timeout":
            continue
        if o[0] != ref[0] or (o[0] == "rows" and o[1] != ref[1]):
            kind = "leftover-rows-dropped" if (ref[0] == "error" and o[0] == "rows") else "mode-difference"
            viol.append({"sig": {"kind": kind, "mode": mode, "leftover": case["leftover"]},
                         "what": f"{kind}: {mode} gives {o}, the single-thread processor {ref} for the same inputs and chunkings"[:600],
                         "case": case})
    if case["leftover"] and ref[0] != "error":
        viol.append({"sig": {"kind": "leftover-accepted", "mode": "single_thread"},
                     "what": f"undeliverable rows of the second input were accepted: {ref}"[:400], "case": case})
    return viol, {"mp_join_cases": 1, "mp_leftover_cases": int(case["leftover"])}


def run_unit(u):
    cl.install(strax)
    res = {"evaluations": 0, "hashes": [], "distinct": 0, "counters": {}, "samples": [], "violations": [], "inconclusive": []}
    if u["fam"] == "mpjoin":
        for case in mp_join_cases(u["seed"], u["n"]):
            viol, cnt = run_mp_join(case)
            res["evaluations"] += 1
            res["hashes"].append(common.chash(case))
            for k, v in cnt.items():
                res["counters"][k] = res["counters"].get(k, 0) + v
            res["violations"].extend(viol[:2])
            if not res["samples"]:
                res["samples"].append(case)
        return res

    def one(case, by_hash):
        viol, cnt, nt, inc = run_case(case)
        res["evaluations"] += 1
        if nt:
            if by_hash:
                res["hashes"].append(common.chash(case))
            else:
                res["distinct"] += 1
        for k, v in cnt.items():
            res["counters"][k] = res["counters"].get(k, 0) + v
        if len(res["violations"]) < 20:
            res["violations"].extend(viol[:2])
        res["inconclusive"].extend(inc)
        if len(res["samples"]) < 1 and nt:
            res["samples"].append(case)

    if u["fam"] == "enum":
        for case in enum_small(u["G"], u["shard"], u["nshards"]):
            one(case, False)
    else:
        for idx in range(u["lo"], u["hi"]):
            one(gen_random(u["seed"], idx), True)
    log, counts = cl.snapshot()
    for entry in log[:3]:
        res["violations"].append({"sig": {"kind": "law", "op": entry["op"]}, "what": f"{entry['what']} :: {entry['detail']}", "case": {}})
    return res


def replay(case):
    cl.install(strax)
    if case.get("mp_join"):
        return run_mp_join(case)[0]
    viol, cnt, nt, inc = run_case(case)
    for i in inc:
        print("INCONCLUSIVE:", i)
    return viol


def _exercise():
    cl.install(strax)
    for i in range(40):
        run_case(gen_random(4242, i))


def warm():
    hrun.warm_numba()
    _exercise()


def prefork():
    _exercise()
