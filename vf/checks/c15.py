"""C15 Loading many runs in parallel equals loading them one by one.

get_array / get_df / make for a list of runs with 1..8 worker threads on ONE shared
context is compared with sequential single-run calls on a fresh context. Schedules:
OS threads with the interpreter switch interval lowered to 1 microsecond (stress), the
default interval (control), and a line-level yield-injection mode (sys.monitoring LINE
events on strax/context.py and strax.utils.multi_run force a thread switch at seeded
random statement boundaries). Cold and warm plugin caches, with and without storage,
single and several same-kind targets, one failing run with and without ignore_errors.
"""
import os
import random
import sys
import threading
import time

import numpy as np

from vf import common

common.setup_env()
strax = common.import_strax()
from vf.checks.meta import META  # noqa: E402
from vf.harness import run as hrun  # noqa: E402

PROPERTY = "C15"
LEVEL = "exploration"
TECHNIQUE = META["C15"]["technique"]
RULE = (
    "execution = (2..8 runs, 1..8 workers, single target or two same-kind targets, cold / warm plugin cache, with / "
    "without storage, get_array / get_df / make, no / one / many failing runs with / without ignore_errors, schedule mode "
    "in {1 us switch interval, default interval, line-level yield injection with a seed}); distinct by hash of "
    "the configuration incl. the mode seed; non-trivial = >= 2 runs and >= 2 workers and the call returned or "
    "raised as classified"
)
ASSUMPTIONS = [
    "OS thread schedules amplified by a 1 us switch interval / seeded yield injection at statement boundaries of "
    "strax/context.py; pre-emption inside C-implemented operations is not controlled",
    "sequential single-run calls on a fresh context define the expected result",
]
REQUIRED = {"parallel_calls": 150, "results_compared": 100, "multi_target_calls": 30, "failing_run_calls": 20,
            "yield_injections": 1000, "registry_checks": 100}
UNIT_TIMEOUT = 1500
DT = {}


def dtf(f):
    if f not in DT:
        DT[f] = strax.time_fields + [((f"value field {f}", f), np.int64)]
    return DT[f]


def run_rows(r, big=0):
    """Rows of run r (an int): values carry the run number."""
    n = big or 2 + r % 3
    return [(10 * i + r, 10 * i + r + 3, 1000 * r + i) for i in range(n)]


def plugins():
    @strax.takes_config(strax.Option("bad_run", default="", track=False), strax.Option("big_rows", default=0, track=True))
    class Src(strax.Plugin):
        provides = "ev"
        depends_on = ()
        dtype = dtf("v0")
        data_kind = "ev"
        rechunk_on_save = False

        def source_finished(self):
            return True

        def is_ready(self, chunk_i):
            return chunk_i < 2

        def compute(self, chunk_i):
            if self.run_id in self.config["bad_run"].split(","):
                raise ValueError(f"run {self.run_id} is broken")
            rows = run_rows(int(self.run_id), self.config["big_rows"])
            a = np.zeros(len(rows), dtype=dtf("v0"))
            a["time"] = [x[0] for x in rows]
            a["endtime"] = [x[1] for x in rows]
            a["v0"] = [x[2] for x in rows]
            if self.config["big_rows"]:
                # incompressible payload: chunk files of tens of kB
                a["v0"] = a["v0"] * 2654435761 % (2 ** 40)
            lo, hi = (0, 15) if chunk_i == 0 else (15, 100 + 10 * len(rows))
            return self.chunk(start=lo, end=hi, data=a[(a["time"] >= lo) & (a["endtime"] <= hi)])

    def row(name, f, k):
        @strax.takes_config(strax.Option("slow_infer", default=0.0, track=False))
        class P(strax.Plugin):
            # no class-level dtype / data_kind: both are worked out when the plugin instance is built
            # (infer_dtype may take a while in real plugins; here 0 .. 2 ms)
            provides = name
            depends_on = ("ev",)
            rechunk_on_save = False
            compressor = "zstd" if name == "pa" else "blosc"

            def infer_dtype(self):
                if self.config["slow_infer"]:
                    time.sleep(self.config["slow_infer"])
                return dtf(f)

            def compute(self, ev):
                r = np.zeros(len(ev), dtype=dtf(f))
                r["time"] = ev["time"]
                r["endtime"] = ev["endtime"]
                r[f] = ev["v0"] * k + 1
                return r

        P.__name__ = "P_" + name
        return P

    return [Src, row("pa", "v1", 3), row("pb", "v2", 7)]


def context(d, bad_run="", slow_infer=0.0, big_rows=0):
    return strax.Context(storage=[strax.DataDirectory(d)] if d else [], register=plugins(),
                         config={"bad_run": bad_run, "slow_infer": slow_infer, "big_rows": big_rows}, processors=["single_thread"],
                         timeout=60)


class YieldInjector:
    """sys.monitoring LINE events on the code objects of strax/context.py (+ multi_run): at seeded random
    statement boundaries the running thread sleeps 0 -> the GIL is handed over (a forced context switch)."""

    TOOL = 4

    def __init__(self, seed, p=0.02):
        self.rng = random.Random(seed)
        self.p = p
        self.n = 0
        self.lock = threading.Lock()
        self.codes = []

    def __enter__(self):
        mon = sys.monitoring
        import types

        import strax.context as sc
        import strax.utils as su

        def collect(obj, out, seen):
            if isinstance(obj, types.CodeType):
                if obj in seen:
                    return
                seen.add(obj)
                out.append(obj)
                for c in obj.co_consts:
                    collect(c, out, seen)

        seen = set()
        for v in vars(sc.Context).values():
            f = getattr(v, "__func__", v)
            f = getattr(f, "fget", f) or f
            if hasattr(f, "__code__"):
                collect(f.__code__, self.codes, seen)
        collect(su.multi_run.__code__, self.codes, seen)
        mon.use_tool_id(self.TOOL, "vf-yield")

        def on_line(code, line):
            with self.lock:
                hit = self.rng.random() < self.p
                if hit:
                    self.n += 1
            if hit:
                time.sleep(0)
            return None

        mon.register_callback(self.TOOL, mon.events.LINE, on_line)
        for c in self.codes:
            mon.set_local_events(self.TOOL, c, mon.events.LINE)
        return self

    def __exit__(self, *a):
        mon = sys.monitoring
        for c in self.codes:
            mon.set_local_events(self.TOOL, c, 0)
        mon.register_callback(self.TOOL, mon.events.LINE, None)
        mon.free_tool_id(self.TOOL)


def expected(runs, targets, bad, ignore, big_rows=0):
    st = context(None, big_rows=big_rows)
    out = []
    for r in sorted(runs):
        if r in bad.split(","):
            if ignore:
                continue
            return None
        with common.quiet():
            a = st.get_array(r, targets, progress_bar=False)
        ids = np.array([r] * len(a), dtype=[("run_id", np.array(sorted(runs)).dtype)])
        out.append(strax.merge_arrs([ids, a]))
    return np.concatenate(out) if out else None


def gen_cfg(seed, idx):
    rng = random.Random(f"{seed}:c15:{idx}")
    nruns = rng.randint(2, 10)
    runs = [str(r) for r in rng.sample(range(0, 30), nruns)]
    bad = ""
    if rng.random() < 0.4:
        # one failing run, or many of them (at least one healthy run stays)
        nb = 1 if rng.random() < 0.4 else rng.randint(1, nruns - 1)
        bad = ",".join(rng.sample(runs, nb))
    return {"runs": runs, "workers": rng.choice([1, 1, 1, 2, 2, 3, 4, 8]), "targets": rng.choice([["pa"], ["pa"], ["pa", "pb"], ["ev", "pb"]]),
            "warm": rng.random() < 0.5, "storage": rng.random() < 0.5, "api": rng.choice(["get_array", "get_array", "get_df", "make"]),
            "bad": bad, "ignore": bool(bad) and rng.random() < 0.6, "slow_infer": rng.choice([0.0, 0.0, 0.001, 0.002]),
            # everything stored beforehand with chunk files of realistic size: the parallel call only loads
            "prestored_big": rng.random() < 0.2,
            "mode": rng.choice(["switch", "switch", "yield", "default"]), "mode_seed": rng.randint(0, 10 ** 6)}


def run_cfg(cfg):
    viol, cnt = [], {}

    def add(kind, text, exc=None, **extra):
        sig = {"kind": kind, "multi_target": len(cfg["targets"]) > 1, "mode": cfg["mode"], "api": cfg["api"]}
        sig.update(extra)
        if exc is not None:
            sig.update(common.exc_sig(exc))
        if len(viol) < 4:
            viol.append({"sig": sig, "what": f"{kind}: {text}"[:600], "case": cfg})

    d = hrun.mktemp("c15-") if cfg["storage"] else None
    try:
        big = 60000 if cfg.get("prestored_big") and d else 0
        st = context(d, cfg["bad"], cfg.get("slow_infer", 0.0), big)
        if big:
            pre = context(d, cfg["bad"], 0.0, big)
            with common.quiet():
                for r in cfg["runs"]:
                    if r not in cfg["bad"].split(","):
                        for t in cfg["targets"]:
                            pre.make(r, t, progress_bar=False)
            cnt["prestored_big_calls"] = 1
        tg = tuple(cfg["targets"]) if len(cfg["targets"]) > 1 else cfg["targets"][0]
        if cfg["warm"]:
            with common.quiet():
                good = [r for r in cfg["runs"] if r not in cfg["bad"].split(",")]
                st.get_array(good[0], tg, progress_bar=False)
        want = expected(cfg["runs"], tg, cfg["bad"], cfg["ignore"], big) if cfg["api"] != "make" else None
        old = sys.getswitchinterval()
        exc = None
        res = None
        inj = None
        try:
            if cfg["mode"] == "switch":
                sys.setswitchinterval(1e-6)
            kw = dict(max_workers=cfg["workers"], progress_bar=False)
            if cfg["ignore"]:
                kw["ignore_errors"] = True

            def call():
                with common.quiet():
                    if cfg["api"] == "get_array":
                        return st.get_array(cfg["runs"], tg, **kw)
                    if cfg["api"] == "get_df":
                        return st.get_df(cfg["runs"], tg, **kw)
                    return st.make(cfg["runs"], tg, **kw)

            if cfg["mode"] == "yield":
                with YieldInjector(cfg["mode_seed"]) as inj:
                    res = call()
            else:
                res = call()
                if big and cfg["api"] != "make":
                    # pure loading: repeat it, the decompression of the runs' chunk files overlaps in time
                    for _ in range(3):
                        res = call()
        except Exception as e:  # noqa: BLE001
            exc = e
        finally:
            sys.setswitchinterval(old)
        cnt["parallel_calls"] = 1
        if inj is not None:
            cnt["yield_injections"] = inj.n
        if len(cfg["targets"]) > 1:
            cnt["multi_target_calls"] = 1
        if cfg["bad"]:
            cnt["failing_run_calls"] = 1
        must_raise = bool(cfg["bad"]) and not cfg["ignore"]
        if exc is not None:
            if must_raise and isinstance(exc, ValueError) and "is broken" in str(exc):
                pass
            else:
                add("exception", f"parallel call failed: {exc!r}", exc)
        else:
            if must_raise:
                add("swallowed", f"run(s) {cfg['bad']} fail(s) but the parallel call returned normally")
            elif cfg["api"] != "make":
                cnt["results_compared"] = 1
                got = res
                if cfg["api"] == "get_df":
                    ok = want is not None and len(got) == len(want) and all(
                        np.array_equal(np.asarray(got[c]), want[c]) for c in want.dtype.names)
                else:
                    ok = want is not None and got.dtype.names == want.dtype.names and len(got) == len(want) and all(
                        np.array_equal(got[c], want[c]) for c in want.dtype.names)
                if not ok:
                    add("rows", f"parallel result differs from sequential single-run calls: {got if cfg['api'] == 'get_df' else got.tolist()} vs {None if want is None else want.tolist()}")
            elif cfg["storage"]:
                fresh = context(d, big_rows=big)
                for r in cfg["runs"]:
                    if r in cfg["bad"].split(","):
                        continue
                    for t in cfg["targets"]:
                        if not fresh.is_stored(r, t):
                            add("not-made", f"make with {cfg['workers']} workers returned but {t} of run {r} is not stored")
        # registry / caches afterwards
        cnt["registry_checks"] = 1
        temps = [k for k in st._plugin_class_registry if k.startswith("_temp")]
        if temps:
            add("temp-plugin-left", f"temporary plugins left in the registry: {temps}")
        fresh = context(None, cfg["bad"], 0.0, big)
        for t in ("ev", "pa", "pb"):
            if str(st.key_for("0", t)) != str(fresh.key_for("0", t)):
                add("key-drift", f"key_for({t}) differs from a fresh context after the parallel call")
    finally:
        if d:
            hrun.rm(d)
    return viol, cnt


def units(tier, seed):
    q = tier == "quick"
    n = 16 if q else 48
    per = 14 if q else 120
    return [{"name": f"mr-{k}", "seed": seed, "lo": k * per, "hi": (k + 1) * per} for k in range(n)]


def run_unit(u):
    res = {"evaluations": 0, "hashes": [], "counters": {}, "samples": [], "violations": [], "inconclusive": []}
    for idx in range(u["lo"], u["hi"]):
        cfg = gen_cfg(u["seed"], idx)
        viol, cnt = run_cfg(cfg)
        res["evaluations"] += 1
        if len(cfg["runs"]) >= 2 and cfg["workers"] >= 2:
            res["hashes"].append(common.chash(cfg))
        for k, v in cnt.items():
            res["counters"][k] = res["counters"].get(k, 0) + v
        if len(res["violations"]) < 20:
            res["violations"].extend(viol[:2])
        if not res["samples"]:
            res["samples"].append(cfg)
    return res


def replay(case):
    out = []
    for _ in range(10):
        viol, cnt = run_cfg(case)
        out.extend(viol)
        if out:
            break
    return out


def _exercise():
    for i in range(4):
        run_cfg(gen_cfg(4242, i))


def warm():
    _exercise()


def prefork():
    _exercise()
