"""C07 Splitting, concatenating, merging and rechunking obey the laws of chunking.

The real Chunk.split / concatenate / merge and Rechunker are driven directly; the
oracles live in vf.mon.chunklaws (the same functions are installed as always-on
monitors in the pipeline checks). Exhaustive small scope + random; split_array is
repeated under numba bounds checking.
"""
import itertools
import os
import random

import numpy as np

from vf import common

common.setup_env(boundscheck=bool(os.environ.get("NUMBA_BOUNDSCHECK")))
strax = common.import_strax()
from vf.checks.meta import META  # noqa: E402
from vf.harness.intervals import arr, all_intervals, sorted_lists  # noqa: E402
from vf.mon import chunklaws as cl  # noqa: E402

PROPERTY = "C07"
LEVEL = "exploration"
TECHNIQUE = META["C07"]["technique"]
RULE = (
    "split: every sorted interval array of <= 4 rows on a 7..8-point grid (disjoint, touching, overlapping; both "
    "end-time encodings) x every split time from start-1 to end+1 x allow_early_split (exhaustive, distinct by "
    "construction); concatenate/merge: every partition of such an array into contiguous chunks plus the "
    "required rejections; rechunker: seeded random runs on a coarse grid with gaps above and below the 1000 ns "
    "split threshold x every partition into contiguous chunks x target sizes 1..n+1 rows, plus sub/super-run "
    "annotated chunks (distinct by hash); non-trivial = at least one row"
)
ASSUMPTIONS = [
    "rows have positive length and are sorted by time; chunk sequences obey the laws of chunking",
    "oracles in vf/mon/chunklaws.py (latest clean cut computed by brute force over candidate times)",
]
REQUIRED = {"constructor": 2000, "split": 5000, "concatenate": 500, "merge": 200, "rechunk_streams": 300, "rejections": 100,
            "cannot_split_seen": 100, "early_split_moved": 100, "subrun_splits": 100}
UNIT_TIMEOUT = 1500


def mkchunk(data, start, end, data_type="dt0", kind="k0", run_id="0", subruns=None, superrun=None, tsz=200):
    return strax.Chunk(data_type=data_type, data_kind=kind, dtype=data.dtype, run_id=run_id, start=start,
                       end=end, data=data, subruns=subruns, superrun=superrun, target_size_mb=tsz)


class Acc:
    def __init__(self):
        self.evaluations = 0
        self.distinct = 0
        self.hashes = set()
        self.counters = {}
        self.samples = []
        self.violations = []

    def count(self, k, n=1):
        self.counters[k] = self.counters.get(k, 0) + n

    def viol(self, op, errs, case, exc=None):
        if len(self.violations) < 25:
            sig = {"op": op, "kind": errs[0].split(":")[0][:60] if errs else "?"}
            if exc is not None:
                sig.update(common.exc_sig(exc))
            case = dict(case, op=op, boundscheck=bool(os.environ.get("NUMBA_BOUNDSCHECK")))
            self.violations.append({"sig": sig, "what": f"{op}: " + "; ".join(errs)[:600], "case": case})

    def result(self):
        return dict(evaluations=self.evaluations, distinct=self.distinct, hashes=sorted(self.hashes),
                    counters=self.counters, samples=self.samples[:3], violations=self.violations)


# ------------------------------------------------------------------ split
def do_split(acc, rows, enc, start, end, t, early, subruns=None, run_id="0"):
    data = arr(rows, enc, extra=[("id", np.int32, list(range(len(rows))))])
    c = mkchunk(data, start, end, subruns=subruns, run_id=run_id)
    acc.evaluations += 1
    try:
        res = c.split(t, allow_early_split=early)
        exc = None
    except Exception as e:  # noqa: BLE001
        res, exc = None, e
    acc.count("split")
    if isinstance(exc, strax.CannotSplit):
        acc.count("cannot_split_seen")
    errs = cl.split_errors(c, t, early, res, exc, strax.CannotSplit)
    if res is not None and res[0].end != max(min(t, end), start):
        acc.count("early_split_moved")
    if errs:
        acc.viol("split", errs, {"rows": rows, "enc": enc, "start": start, "end": end, "t": t, "early": early,
                                 "subruns": subruns, "run_id": run_id},
                 exc if exc is not None and not isinstance(exc, strax.CannotSplit) else None)
    return c, res


def check_subrun_split(acc, rows, start, end, t, subruns, case):
    """Halves' subrun spans partition the parent's at the split time; concatenation restores the parent."""
    data = arr(rows, "endtime", extra=[("id", np.int32, list(range(len(rows))))])
    c = mkchunk(data, start, end, subruns=subruns, run_id="_sr")
    acc.evaluations += 1
    try:
        c1, c2 = c.split(t, allow_early_split=True)
    except Exception as e:  # noqa: BLE001
        acc.viol("split(subruns)", [f"exception {e!r}"], case, e)
        return
    acc.count("subrun_splits")
    tt = c1.end
    want1, want2 = {}, {}
    for rid, se in subruns.items():
        a, b = se["start"], se["end"]
        if min(b, tt) > a:
            want1[rid] = {"start": a, "end": min(b, tt)}
        if b > max(a, tt):
            want2[rid] = {"start": max(a, tt), "end": b}
    got1 = c1.subruns or {}
    got2 = c2.subruns or {}
    errs = []
    if got1 != want1 or got2 != want2:
        errs.append(f"subrun spans not partitioned at {tt}: left {got1} right {got2} parent {subruns}")
    if not errs and len(c1) + len(c2) == len(c):
        try:
            back = strax.Chunk.concatenate([c1, c2], allow_superrun=True)
            if (back.start, back.end) != (c.start, c.end) or (back.subruns or {}) != c.subruns \
                    or not cl.bits_equal(back.data, c.data):
                errs.append(f"concatenate(split(c)) != c: subruns {back.subruns} vs {c.subruns}")
        except Exception as e:  # noqa: BLE001
            errs.append(f"concatenate(split(c)) raised {e!r}")
    # a finer partition: three pieces handed to ONE concatenate call give the original back as well
    if not errs and tt > start + 0 and c2.end - c2.start >= 2:
        try:
            mid = (c2.start + c2.end) // 2
            c2a, c2b = c2.split(t=mid, allow_early_split=True)
            if c2a.end > c2a.start and c2b.end > c2b.start:
                acc.count("concat_three_pieces")
                back3 = strax.Chunk.concatenate([c1, c2a, c2b], allow_superrun=True)
                if (back3.start, back3.end) != (c.start, c.end) or (back3.subruns or {}) != c.subruns \
                        or back3.data.tobytes() != c.data.tobytes():
                    errs.append(f"concatenate of three adjacent pieces != original: subruns {back3.subruns} vs {c.subruns}")
        except Exception as e:  # noqa: BLE001
            errs.append(f"concatenate of three adjacent pieces of a superrun chunk failed: {e!r}")
    if errs:
        acc.viol("split(subruns)", errs, case)


# ------------------------------------------------------------------ constructor
def check_multirun_split(acc, rows, subruns, tt, early, case):
    """A chunk combined from the chunks of several plain runs (what a superrun-capable plugin's input buffer holds:
    Chunk.concatenate(..., allow_superrun=True), run_id None) obeys the same split laws as any other chunk."""
    acc.count("split_multirun")
    parts = []
    for rid, se in subruns.items():
        rr = [r for r in rows if se["start"] <= r[0] and r[1] <= se["end"]]
        parts.append(mkchunk(arr(rr, "endtime"), se["start"], se["end"], run_id=rid))
    try:
        c = strax.Chunk.concatenate(parts, allow_superrun=True)
    except Exception as e:  # noqa: BLE001
        acc.viol("split(multi-run)", [f"concatenate(allow_superrun=True) of the runs' chunks failed: {e!r}"], case, e)
        return
    res, exc = None, None
    try:
        res = c.split(t=tt, allow_early_split=early)
    except Exception as e:  # noqa: BLE001
        exc = e
    errs = cl.split_errors(c, tt, early, res, exc, strax.CannotSplit)
    if errs:
        acc.viol("split(multi-run)", errs, case, exc if exc is not None and not isinstance(exc, strax.CannotSplit) else None)


def check_constructor(acc, rows, enc, start, end):
    """Chunk() must accept exactly the row sets lying inside [start, end) (<= 500 rows, sorted by time)."""
    data = arr(rows, enc, extra=[("id", np.int32, list(range(len(rows))))])
    inside = all(start <= s and e <= end for s, e in rows)
    valid = inside and 0 <= start <= end
    acc.evaluations += 1
    try:
        mkchunk(data, start, end)
        ok = True
    except ValueError:
        ok = False
    except Exception as e:  # noqa: BLE001
        acc.viol("constructor", [f"unexpected exception {e!r}"], {"rows": rows, "enc": enc, "start": start, "end": end}, e)
        return
    acc.count("constructor")
    if ok != valid:
        acc.count("constructor_mismatch")
        acc.viol("constructor", [f"Chunk([{start},{end})) with rows {rows} was {'accepted' if ok else 'rejected'}; "
                                 f"rows inside the range: {inside}"],
                 {"rows": rows, "enc": enc, "start": start, "end": end, "op": "constructor"})
    elif not valid:
        acc.count("rejections")


# ------------------------------------------------------------------ concatenate / merge
def check_concat_merge(acc, rows, enc, cuts, case):
    data = arr(rows, enc, extra=[("id", np.int32, list(range(len(rows))))])
    chunks = []
    for a, b in zip(cuts[:-1], cuts[1:]):
        m = (data["time"] >= a) & (cl.endtime(data) <= b) if a != b else np.zeros(len(data), bool)
        chunks.append(mkchunk(data[m], a, b))
    acc.evaluations += 1
    try:
        res = strax.Chunk.concatenate(chunks)
        exc = None
    except Exception as e:  # noqa: BLE001
        res, exc = None, e
    acc.count("concatenate")
    errs = cl.concat_errors(chunks, False, res, exc)
    if not errs and res is not None and len(chunks) > 1:
        if not cl.bits_equal(res.data, data):
            errs.append("concatenation of the partition is not the original array")
    if errs:
        acc.viol("concatenate", errs, case, exc)
    # required rejections
    if len(chunks) >= 2:
        bads = [("out-of-order", chunks[::-1] if chunks[0].end > 0 and chunks[-1].start > chunks[0].start else None)]
        ov = mkchunk(data[:0], max(0, chunks[1].start - 1), chunks[1].end) if chunks[1].start > chunks[0].start else None
        bads.append(("overlapping", [chunks[0], ov] if ov is not None and ov.start < chunks[0].end else None))
        bads.append(("type", [chunks[0], mkchunk(chunks[1].data, chunks[1].start, chunks[1].end, data_type="other")]))
        bads.append(("run", [chunks[0], mkchunk(chunks[1].data, chunks[1].start, chunks[1].end, run_id="1")]))
        for name, bad in bads:
            if bad is None:
                continue
            acc.evaluations += 1
            try:
                r = strax.Chunk.concatenate(bad)
                e2 = None
            except Exception as e:  # noqa: BLE001
                r, e2 = None, e
            acc.count("rejections")
            er = cl.concat_errors(bad, False, r, e2)
            if er:
                acc.viol("concatenate", er, dict(case, reject=name))
    # merge: same rows, different extra columns
    for c in chunks[:2]:
        d2 = np.zeros(len(c.data), dtype=strax.time_fields + [(("second payload", "p2"), np.int64), (("row id", "id"), np.int32)]) \
            if enc == "endtime" else \
            np.zeros(len(c.data), dtype=strax.time_dt_fields + [(("second payload", "p2"), np.int64), (("row id", "id"), np.int32)])
        for f in c.data.dtype.names:
            if f in d2.dtype.names:
                d2[f] = c.data[f]
        d2["p2"] = c.data["id"] * 10 + 1
        d2["id"] = c.data["id"] + 100  # duplicated field: the LAST chunk's value must win
        other = mkchunk(d2, c.start, c.end, data_type="dt1")
        acc.evaluations += 1
        try:
            r = strax.Chunk.merge([c, other], data_type="merged")
            e2 = None
        except Exception as e:  # noqa: BLE001
            r, e2 = None, e
        acc.count("merge")
        er = cl.merge_errors([c, other], r, e2)
        if er:
            acc.viol("merge", er, case, e2)
        # rejections: unequal length / different range / different kind / different run
        rej = []
        if len(c.data):
            rej.append(("length", mkchunk(d2[:-1], c.start, c.end, data_type="dt1")))
        rej.append(("range", mkchunk(d2, c.start, c.end + 1, data_type="dt1")))
        rej.append(("kind", mkchunk(d2, c.start, c.end, data_type="dt1", kind="k1")))
        rej.append(("run", mkchunk(d2, c.start, c.end, data_type="dt1", run_id="9")))
        for name, o2 in rej:
            acc.evaluations += 1
            try:
                r = strax.Chunk.merge([c, o2])
                e2 = None
            except Exception as e:  # noqa: BLE001
                r, e2 = None, e
            acc.count("rejections")
            er = cl.merge_errors([c, o2], r, e2)
            if er:
                acc.viol("merge", er, dict(case, reject=name))


# ------------------------------------------------------------------ rechunker
RD = None


def rdtype():
    return strax.time_fields + [(("row id", "id"), np.int64)]  # 24 bytes per row


def legal_cuts(rows, lo, hi, step):
    out = []
    for c in range(lo, hi + 1, step):
        if not any(a < c < b for a, b in rows):
            out.append(c)
    return out


def run_rechunker(acc, rows, cuts, target_rows, case, run_id="0", subruns_for=None):
    data = np.zeros(len(rows), dtype=rdtype())
    data["time"] = [a for a, _ in rows]
    data["endtime"] = [b for _, b in rows]
    data["id"] = np.arange(len(rows))
    tsz = (target_rows * 24 + 12) / 1e6
    chunks = []
    for a, b in zip(cuts[:-1], cuts[1:]):
        m = (data["time"] >= a) & (data["endtime"] <= b) if a != b else np.zeros(len(data), bool)
        sr = subruns_for(a, b) if subruns_for else None
        chunks.append(mkchunk(data[m], a, b, tsz=tsz, run_id=run_id, subruns=sr))
    st = cl.RechunkStream()
    acc.evaluations += 1
    r = strax.Rechunker(rechunk=True, run_id=run_id)
    try:
        for c in chunks:
            st.feed(c)
            st.emit(r.receive(c))
        st.emit(r.flush())
        exc = None
        if r.flush() != []:
            st.errs.append("flush did not empty the cache")
    except Exception as e:  # noqa: BLE001
        exc = e
    acc.count("rechunk_streams")
    errs = st.final() if exc is None else [f"rechunker failed on valid input: {type(exc).__name__}: {exc}"]
    # cuts only where no row is straddled (also implied by chunk_errors on every output chunk)
    if errs:
        n_gaps = int((np.asarray(strax.diff(data)) > 1000).sum()) if len(data) > 1 else 0
        acc.viol("rechunk", errs, dict(case, n_gaps_above_threshold=n_gaps), exc)
    else:
        acc.count("rechunk_out_chunks", st.n_out)


def gen_nested_rows(rng, n):
    """One long row covering later short rows that are more than the split threshold apart (so the gap to
    the *previous row's end* is large although the running maximum end time says there is no gap)."""
    t0 = rng.randint(0, 3) * 100
    rows = []
    t = t0
    for _ in range(rng.randint(1, 2)):
        inner = rng.randint(2, max(2, n))
        span = inner * 1500 + 500
        rows.append((t, t + span))
        ti = t + rng.choice([0, 100])
        for _ in range(inner):
            rows.append((ti, ti + rng.choice([100, 200])))
            ti += rng.choice([1100, 1300, 1500])
        t += span + rng.choice([0, 400, 1200, 3000])
        rows.append((t, t + 200))
        t += 200 + rng.choice([0, 1200])
    return sorted(rows)


def gen_coarse_rows(rng, n):
    rows = []
    t = rng.randint(0, 3) * 100
    for _ in range(n):
        t += rng.choice([0, 100, 400, 900, 1000, 1100, 1500, 3000])
        ln = rng.choice([100, 200, 600, 1300])
        rows.append((t, t + ln))
        if rng.random() < 0.7:
            t += ln
    return rows


# ------------------------------------------------------------------ units
def units(tier, seed):
    q = tier == "quick"
    us = []
    G = 6 if q else 7
    nmax = 3 if q else 4
    for n in range(0, nmax + 1):
        nsh = 4 if (n == nmax and not q) else (2 if n == nmax else 1)
        for sh in range(nsh):
            us.append({"name": f"split-n{n}-s{sh}", "fam": "split", "n": n, "G": G, "shard": sh, "nshards": nsh})
    us.append({"name": "split-bc", "fam": "split", "n": 3, "G": 5 if q else 6, "shard": 0, "nshards": 1, "boundscheck": True})
    us.append({"name": "split-bc-n2", "fam": "split", "n": 2, "G": 6, "shard": 0, "nshards": 1, "boundscheck": True})
    us.append({"name": "concat", "fam": "concat", "n": 3, "G": 5 if q else 6})
    us.append({"name": "ctor", "fam": "ctor", "n": 3, "G": 5 if q else 6})
    for k in range(4 if q else 16):
        us.append({"name": f"rechunk-{k}", "fam": "rechunk", "seed": seed * 1000 + k, "n": 40 if q else 150})
    for k in range(2 if q else 6):
        us.append({"name": f"subruns-{k}", "fam": "subruns", "seed": seed * 1000 + k, "n": 150 if q else 600})
    for k in range(1 if q else 4):
        us.append({"name": f"random-{k}", "fam": "random", "seed": seed * 1000 + k, "n": 300 if q else 1500})
    return us


def run_unit(u):
    acc = Acc()
    fam = u["fam"]
    if fam == "split":
        ivs = all_intervals(u["G"])
        n = u["n"]
        for k, rows in enumerate(sorted_lists(n, ivs)):
            if k % u["nshards"] != u["shard"]:
                continue
            hi = max([e for _, e in rows] + [1])
            for enc in ("endtime", "dt"):
                for (start, end) in ((0, hi), (min([s for s, _ in rows] + [0]), hi + 2)):
                    for t in range(start - 1, end + 2):
                        for early in (False, True):
                            do_split(acc, rows, enc, start, end, t, early)
            if n:
                acc.distinct += 1
            if n >= 2 and len(acc.samples) < 2:
                acc.samples.append({"op": "split", "rows": rows, "t": "start-1..end+1", "early": "both"})
    elif fam == "concat":
        ivs = all_intervals(u["G"])
        for n in range(0, u["n"] + 1):
            for rows in sorted_lists(n, ivs):
                hi = max([e for _, e in rows] + [2])
                legal = legal_cuts(rows, 0, hi, 1)
                inner = [c for c in legal if 0 < c < hi]
                for r in range(0, min(3, len(inner)) + 1):
                    for cs in itertools.combinations(inner, r):
                        for rep in (False, True):
                            cuts = [0] + list(cs) + [hi]
                            if rep and cs:
                                cuts = sorted(cuts + [cs[0]])  # zero-duration chunk
                            elif rep:
                                continue
                            case = {"rows": rows, "cuts": cuts, "enc": "endtime" if (n + r) % 2 else "dt"}
                            check_concat_merge(acc, rows, case["enc"], cuts, case)
                            if n:
                                acc.distinct += 1
        acc.samples.append({"op": "concatenate/merge", "rows": [(0, 2), (2, 3)], "cuts": [0, 2, 2, 3]})
    elif fam == "ctor":
        ivs = all_intervals(u["G"])
        for n in range(1, u["n"] + 1):
            for rows in sorted_lists(n, ivs):
                for enc in ("endtime", "dt"):
                    for start in range(0, 3):
                        for end in range(max(start, 1), u["G"] + 1):
                            check_constructor(acc, rows, enc, start, end)
                acc.distinct += 1
        acc.samples.append({"op": "constructor", "rows": [(0, 5), (1, 2)], "start": 0, "end": 3})
    elif fam == "rechunk":
        rng = random.Random(u["seed"])
        for i in range(u["n"]):
            n = rng.randint(1, 8)
            rows = gen_coarse_rows(rng, n) if i % 3 else gen_nested_rows(rng, rng.randint(2, 4))
            n = len(rows)
            lo = rng.choice([0, rows[0][0]])
            hi = max(e for _, e in rows) + rng.choice([0, 500, 2000])
            legal = [c for c in legal_cuts(rows, lo, hi, 100) if lo < c < hi]
            # all partitions when few legal cuts, random subsets otherwise
            if len(legal) <= 5:
                subsets = [cs for r in range(len(legal) + 1) for cs in itertools.combinations(legal, r)]
            else:
                subsets = [tuple(sorted(rng.sample(legal, rng.randint(0, min(5, len(legal)))))) for _ in range(12)]
            for cs in subsets:
                cuts = [lo] + list(cs) + [hi]
                if cs and rng.random() < 0.2:
                    cuts = sorted(cuts + [rng.choice(cs)])
                for target in range(1, n + 2):
                    case = {"rows": rows, "cuts": cuts, "target_rows": target}
                    run_rechunker(acc, rows, cuts, target, case)
                    acc.hashes.add(common.chash(case))
            if i < 1:
                acc.samples.append({"op": "rechunk", "rows": rows, "cuts": [lo] + list(subsets[-1]) + [hi], "target_rows": "1..n+1"})
    elif fam == "subruns":
        rng = random.Random(u["seed"])
        for i in range(u["n"]):
            # a superrun chunk covering 1..3 subruns laid end to end (possibly with gaps between them)
            nsr = rng.randint(1, 3)
            t = rng.randint(0, 5)
            subruns = {}
            rows = []
            start = t
            for s in range(nsr):
                a = t
                for _ in range(rng.randint(0, 3)):
                    t += rng.choice([0, 1, 2])
                    ln = rng.randint(1, 3)
                    rows.append((t, t + ln))
                    t += ln
                t += rng.choice([0, 1, 2])
                if t == a:
                    t += 1  # subruns have positive duration
                subruns[f"r{s}"] = {"start": a, "end": t}
                if s < nsr - 1 and rng.random() < 0.5:
                    t += rng.randint(1, 4)  # gap between subruns
            end = t
            for tt in range(start - 1, end + 2):
                case = {"rows": rows, "start": start, "end": end, "t": tt, "subruns": subruns}
                check_subrun_split(acc, rows, start, end, tt, subruns, case)
            # the same runs as separate plain chunks, combined (only possible when they are contiguous in time)
            spans = list(subruns.values())
            if all(x["end"] == y["start"] for x, y in zip(spans[:-1], spans[1:])):
                for tt in range(start - 1, end + 2):
                    for early in (False, True):
                        check_multirun_split(acc, rows, subruns, tt, early,
                                             {"op": "split(multi-run)", "rows": rows, "subruns": subruns, "t": tt, "early": early})
            acc.hashes.add(common.chash([rows, subruns]))
            if i < 1:
                acc.samples.append({"op": "split(subruns)", "rows": rows, "subruns": subruns})
    elif fam == "random":
        rng = random.Random(u["seed"])
        for i in range(u["n"]):
            n = rng.randint(1, 60)
            rows = []
            t = rng.randint(0, 20)
            for _ in range(n):
                t += rng.choice([0, 0, 1, 2, 5, 20])
                rows.append((t, t + rng.choice([1, 2, 3, 10, 40])))
            hi = max(e for _, e in rows) + rng.randint(0, 5)
            lo = rng.randint(0, rows[0][0])
            enc = rng.choice(["endtime", "dt"])
            for _ in range(6):
                tt = rng.randint(lo - 2, hi + 2)
                do_split(acc, rows, enc, lo, hi, tt, rng.random() < 0.5)
            acc.hashes.add(common.chash([rows, lo, hi, enc]))
    return acc.result()


def replay(case):
    acc = Acc()
    op = case.get("op")
    rows = [tuple(r) for r in case.get("rows", [])]
    if op == "split":
        do_split(acc, rows, case["enc"], case["start"], case["end"], case["t"], case["early"])
    elif op == "split(multi-run)":
        check_multirun_split(acc, rows, case["subruns"], case["t"], case["early"], case)
    elif op == "split(subruns)":
        check_subrun_split(acc, rows, case["start"], case["end"], case["t"], case["subruns"], case)
    elif op in ("concatenate", "merge"):
        check_concat_merge(acc, rows, case["enc"], case["cuts"], case)
    elif op == "rechunk":
        run_rechunker(acc, rows, case["cuts"], case["target_rows"], case)
    elif op == "constructor":
        check_constructor(acc, rows, case["enc"], case["start"], case["end"])
    return acc.violations


def warm():
    acc = Acc()
    for enc in ("endtime", "dt"):
        do_split(acc, [(0, 2), (1, 4), (5, 6)], enc, 0, 7, 3, True)
        check_concat_merge(acc, [(0, 2), (3, 4)], enc, [0, 2, 4], {})
    run_rechunker(acc, [(0, 100), (2000, 2100), (5000, 5100)], [0, 1000, 6000], 1, {})
    check_subrun_split(acc, [(0, 2), (3, 4)], 0, 5, 2, {"a": {"start": 0, "end": 5}}, {})
