"""Helpers to build a Context from a spec and run requests against the real strax."""
import os
import shutil
import tempfile
import threading

import numpy as np

from vf import common
from vf.harness import plugins as hp

TMPROOT = os.environ.get("VERIF_TMP") or os.path.join(common.CACHE, "tmp")


def mktemp(prefix="case-"):
    os.makedirs(TMPROOT, exist_ok=True)
    return tempfile.mkdtemp(prefix=prefix, dir=TMPROOT)


def with_cuts(spec, cuts_by_source):
    """Copy of spec with other source chunkings."""
    s2 = dict(spec)
    s2["sources"] = [dict(s, cuts=cuts_by_source.get(s["name"], s["cuts"])) for s in spec["sources"]]
    return s2


def make_context(spec, storage, cfg, extra_config=None, **ctx_opts):
    import strax

    classes, config = hp.make_classes(spec)
    if extra_config:
        config.update(extra_config)
    if isinstance(storage, str):
        storage = [strax.DataDirectory(storage)]
    elif storage is None:
        storage = []
    opts = dict(
        allow_lazy=cfg.get("allow_lazy", True),
        max_messages=cfg.get("max_messages", 20),
        allow_rechunk=cfg.get("allow_rechunk", True),
        timeout=cfg.get("timeout", 60),
    )
    opts.update(ctx_opts)
    st = strax.Context(storage=storage, register=classes, config=config,
                       processors=[cfg.get("processor", "single_thread")], **opts)
    return st


def get_chunks(st, run_id, target, cfg, **kw):
    with common.quiet():
        return list(st.get_iter(run_id, target, progress_bar=False, max_workers=cfg.get("max_workers"), **kw))


def threads_snapshot():
    return {t.ident for t in threading.enumerate()}


def leaked_threads(before):
    import time

    deadline = time.time() + 2.0
    while True:
        extra = [t for t in threading.enumerate()
                 if t.ident not in before and t.is_alive() and "tqdm" not in t.name.lower()]
        if not extra or time.time() > deadline:
            return [t.name for t in extra]
        time.sleep(0.01)


def rm(path):
    shutil.rmtree(path, ignore_errors=True)


def load_stored(spec, storage_dir, data_type, run_id="0", cfg=None):
    """Fresh context, creation forbidden: returns array or raises."""
    st = make_context(spec, storage_dir, cfg or {"processor": "single_thread"}, forbid_creation_of=("*",))
    with common.quiet():
        return st.get_array(run_id, data_type, progress_bar=False)


def is_stored(spec, storage_dir, data_type, run_id="0"):
    st = make_context(spec, storage_dir, {"processor": "single_thread"})
    return st.is_stored(run_id, data_type)


def warm_numba():
    """Compile the cached numba functions strax uses on harness dtypes (single cache writer)."""
    import strax

    arrs = [hp.mkarr(f"v{i}", [(0, 2, 1), (3, 4, 2)]) for i in range(hp.NFIELDS)]
    for a in arrs:
        strax.diff(a)
        strax.endtime(a)
        strax.sort_by_time(a)
        for b in arrs:
            strax.split_by_containment(a, b)
            strax.fully_contained_in(a, b)
        strax.touching_windows(a, arrs[0])
    # read-only variants (data loaded from storage is a read-only buffer view)
    ro = []
    for a in arrs:
        b = a.copy()
        b.setflags(write=False)
        ro.append(b)
    for a in arrs + ro:
        strax.diff(a)
        for b in arrs + ro:
            strax.split_by_containment(a, b)
            strax.fully_contained_in(a, b)
