"""Harness plugin library: plugin classes generated from a JSON-able graph spec.

Spec:
  {"sources": [{"name", "kind", "rows": [(t, e, v), ...], "cuts": [c0, ..., cn]}],
   "plugins": [{"name", "type", "deps": [...], ...per-type parameters...}]}

Plugin types and their whole-run semantics (see oracle.py):
  row     v = 3 * sum_i (i + 2) * v_dep_i + c           (deps: >= 1, all of one kind -> same-kind merge)
  filter  keeps rows with v % m != r; v + 1             (new data kind = own name)
  multi   outputs <name>a (v * 5 + 1, same kind) and <name>b (rows with even v, new kind <name>b)
  loop    LoopPlugin over deps[0] (disjoint rows) with fully contained deps[1] rows:
          v = 100 * v_base + sum(v_things) + 7 * count
  window  OverlapWindowPlugin (wl, wr): v + 10 * #{j: end_j in (t_i - wl, t_i]} + 1000 * #{j: t_j in [e_i, e_i + wr)}
  group   OverlapWindowPlugin emitting one row per group of rows separated by gaps >= gap (window = gap)
  down    DownChunkingPlugin: rows unchanged, v + 2, yielded in several sub-chunks cut at legal points
  exhaust ExhaustPlugin: v + 1000 * (number of rows in the whole run)

Each data type has dtype time_fields + (<field>, int64) with <field> in {v0, v1, v2} taken from
the spec (default v0); same-kind deps merged by a row plugin carry different fields, so row
alignment is visible in the values, and numba sees only three distinct dtypes. Every compute call is recorded in
EVENTS (thread-safe) for the delivery monitors (C08, C11, C13).
"""
import threading

import numpy as np

_lock = threading.Lock()
EVENTS = []
SEQ = [0]


class InjectedFailure(Exception):
    pass


def reset_events():
    with _lock:
        EVENTS.clear()
        SEQ[0] = 0


def events():
    with _lock:
        return list(EVENTS)


def _record(ev):
    with _lock:
        SEQ[0] += 1
        ev["seq"] = SEQ[0]
        ev["thread"] = threading.get_ident()
        EVENTS.append(ev)


NFIELDS = 3


def dtype_for(f):
    """dtype for value field name f (v0, v1 or v2). Almost every harness data type uses v0: numba
    compiles (and caches) one specialisation per dtype x readonly-flag combination of each strax
    function, so dtype diversity directly multiplies JIT time."""
    import strax

    return strax.time_fields + [((f"value field {f}", f), np.int64)]


def fields_of(spec):
    """data type -> value field name (from the spec; default v0). Same-kind deps that are merged by a
    'row' plugin must have different fields (the generator guarantees it)."""
    out = {}
    for s in spec["sources"]:
        out[s["name"]] = s.get("field", "v0")
    for p in spec["plugins"]:
        if p["type"] in ("multi", "mwindow"):
            out[p["name"] + "a"] = p.get("field_a", "v0")
            out[p["name"] + "b"] = p.get("field_b", "v0")
        else:
            out[p["name"]] = p.get("field", "v0")
    return out


def mkarr(f, rows):
    a = np.zeros(len(rows), dtype=dtype_for(f))
    if len(rows):
        a["time"] = [r[0] for r in rows]
        a["endtime"] = [r[1] for r in rows]
        a[f] = [r[2] for r in rows]
    return a


def out_arr(f, time, endtime, v):
    a = np.zeros(len(time), dtype=dtype_for(f))
    a["time"] = time
    a["endtime"] = endtime
    a[f] = v
    return a


SAVE_WHEN = {"NEVER": 0, "EXPLICIT": 1, "TARGET": 2, "ALWAYS": 3}


def _common_attrs(p, strax):
    attrs = {}
    sw = p.get("save_when", "ALWAYS")
    if isinstance(sw, dict):
        from immutabledict import immutabledict

        attrs["save_when"] = immutabledict({k: strax.SaveWhen(SAVE_WHEN[v]) for k, v in sw.items()})
    else:
        attrs["save_when"] = strax.SaveWhen(SAVE_WHEN[sw])
    ros = p.get("rechunk_on_save", True)
    if isinstance(ros, dict):
        from immutabledict import immutabledict

        ros = immutabledict(ros)
    attrs["rechunk_on_save"] = ros
    attrs["rechunk_on_load"] = bool(p.get("rechunk_on_load", False))
    if "chunk_target_size_mb" in p:
        attrs["chunk_target_size_mb"] = p["chunk_target_size_mb"]
    if "chunk_source_size_mb" in p:
        attrs["chunk_source_size_mb"] = p["chunk_source_size_mb"]
    attrs["__version__"] = p.get("version", "0.0.1")
    attrs["compressor"] = p.get("compressor", "blosc")
    if p.get("allow_superrun"):
        attrs["allow_superrun"] = True
    if p.get("parallel"):
        attrs["parallel"] = p["parallel"]
    if p.get("max_messages"):
        attrs["max_messages"] = p["max_messages"]  # the plugin asks for a larger output buffer itself
    return attrs


def kinds_of(spec):
    """data type -> data kind, for every data type in the spec."""
    k = {}
    for s in spec["sources"]:
        k[s["name"]] = s["kind"]
    for p in spec["plugins"]:
        t = p["type"]
        n = p["name"]
        if t in ("row", "window", "down", "exhaust", "loop", "gather"):
            k[n] = k[p["deps"][0]]
        elif t in ("filter", "group"):
            k[n] = n
        elif t == "multi":
            k[n + "a"] = k[p["deps"][0]]
            k[n + "b"] = n + "b"
        elif t == "mwindow":
            k[n + "a"] = n + "a"
            k[n + "b"] = n + "b"
        else:
            raise ValueError(t)
    return k


def provides_of(p):
    return [p["name"] + "a", p["name"] + "b"] if p["type"] in ("multi", "mwindow") else [p["name"]]


def _maybe_fail(self, name, chunk_i_seen):
    f = self.config.get("fail_" + name, None)
    if f is not None and f == chunk_i_seen:
        raise InjectedFailure(f"{name}@{chunk_i_seen}")


def make_classes(spec):
    """Return (list of plugin classes, config dict with rows_/cuts_ options)."""
    import strax

    kinds = kinds_of(spec)
    F = fields_of(spec)
    classes = []
    config = {}

    for s in spec["sources"]:
        name = s["name"]
        config["rows_" + name] = tuple(tuple(int(x) for x in r) for r in s["rows"])
        config["cuts_" + name] = tuple(int(c) for c in s["cuts"])

        def compute(self, chunk_i, _n=name, _f=F[name]):
            cuts = self.config["cuts_" + _n]
            a = mkarr(_f, self.config["rows_" + _n])
            lo, hi = cuts[chunk_i], cuts[chunk_i + 1]
            m = (a["time"] >= lo) & (a["endtime"] <= hi)
            if lo == hi:
                m[:] = False
            _record({"p": _n, "chunk_i": chunk_i, "start": lo, "end": hi, "src": True})
            _maybe_fail(self, _n, chunk_i)
            return self.chunk(start=lo, end=hi, data=a[m])

        def is_ready(self, chunk_i, _n=name):
            return chunk_i < len(self.config["cuts_" + _n]) - 1

        attrs = dict(provides=(name,), depends_on=(), dtype=dtype_for(F[name]), data_kind=s["kind"],
                     compute=compute, is_ready=is_ready, source_finished=lambda self: True)
        ca = _common_attrs(s, strax)
        if "rechunk_on_save" not in s:
            ca["rechunk_on_save"] = False
        attrs.update(ca)
        cls = type("Src_" + name, (strax.Plugin,), attrs)
        cls = strax.takes_config(
            strax.Option("rows_" + name, default=(), track=True),
            strax.Option("cuts_" + name, default=(), track=False),
            strax.Option("fail_" + name, default=None, track=False),
        )(cls)
        classes.append(cls)

    for p in spec["plugins"]:
        name, t, deps = p["name"], p["type"], tuple(p["deps"])
        opts = [strax.Option("fail_" + name, default=None, track=False)]
        attrs = dict(depends_on=deps)
        attrs.update(_common_attrs(p, strax))
        base = strax.Plugin
        d0 = deps[0]
        f0 = F[d0]
        k0 = kinds[d0]

        def rec(self, kw, start, end, _n=name, _deps=deps, _kinds=kinds, _F=F):
            rows = {}
            for d in _deps:
                arr = kw[_kinds[d]]
                rows[d] = [int(x) for x in arr[_F[d]]]
                rows[d + ":t"] = [int(x) for x in arr["time"]]
            i = getattr(self, "_vf_calls", 0)
            self._vf_calls = i + 1
            _record({"p": _n, "call": i, "start": start, "end": end, "rows": rows,
                     "ranges": {k: [int(a["time"].min()), int(a["endtime"].max())] if len(a) else None
                                for k, a in kw.items()}})
            _maybe_fail(self, _n, i)

        if t == "row":
            c = p.get("c", 1)
            opts.append(strax.Option("c_" + name, default=c, track=True))
            if "untracked" in p:
                opts.append(strax.Option("u_" + name, default=p["untracked"], track=False))
            fn = F[name]

            def compute(self, start, end, _n=name, _fs=tuple(F[d] for d in deps), _k=k0, _fn=fn, _rec=rec, **kw):
                _rec(self, kw, start, end)
                a = kw[_k]
                v = sum((i + 2) * a[f] for i, f in enumerate(_fs)) * 3 + self.config["c_" + _n]
                return out_arr(_fn, a["time"], a["endtime"], v)

            if p.get("takes_chunk_i"):
                # a plugin whose compute asks for the chunk number (strax then tracks first_chunk / chunk_i for it)
                def compute(self, chunk_i, start, end, _inner=compute, **kw):  # noqa: F811
                    return _inner(self, start, end, **kw)

            attrs.update(provides=(name,), dtype=dtype_for(fn), data_kind=kinds[name], compute=compute)
        elif t == "filter":
            m_, r_ = p.get("m", 2), p.get("r", 0)
            fn = F[name]

            def compute(self, start, end, _f0=f0, _k=k0, _m=m_, _r=r_, _fn=fn, _rec=rec, **kw):
                _rec(self, kw, start, end)
                a = kw[_k]
                a = a[a[_f0] % _m != _r]
                return out_arr(_fn, a["time"], a["endtime"], a[_f0] + 1)

            attrs.update(provides=(name,), dtype=dtype_for(fn), data_kind=name, compute=compute)
        elif t == "multi":
            na, nb = name + "a", name + "b"

            def compute(self, start, end, _f0=f0, _k=k0, _na=na, _nb=nb, _fa=F[na], _fb=F[nb], _rec=rec, **kw):
                _rec(self, kw, start, end)
                a = kw[_k]
                b = a[a[_f0] % 2 == 0]
                return {_na: out_arr(_fa, a["time"], a["endtime"], a[_f0] * 5 + 1),
                        _nb: out_arr(_fb, b["time"], b["endtime"], b[_f0])}

            attrs.update(provides=(na, nb), dtype={na: dtype_for(F[na]), nb: dtype_for(F[nb])},
                         data_kind={na: kinds[na], nb: kinds[nb]}, compute=compute)
        elif t == "loop":
            base = strax.LoopPlugin
            kb, kt = kinds[deps[0]], kinds[deps[1]]
            fn = F[name]

            def compute_loop(self, b, _fb=F[deps[0]], _ft=F[deps[1]], _kt=kt, _fn=fn, **kw):
                th = kw[_kt]
                return {"time": b["time"], "endtime": b["endtime"],
                        _fn: int(b[_fb]) * 100 + int(th[_ft].sum()) + 7 * len(th)}

            def compute(self, start, end, _rec=rec, **kw):
                _rec(self, dict(kw), start, end)
                return strax.LoopPlugin.compute(self, **kw)

            attrs.update(provides=(name,), dtype=dtype_for(fn), data_kind=kb, compute_loop=compute_loop,
                         compute=compute, loop_over=kb)
        elif t in ("window", "group"):
            base = strax.OverlapWindowPlugin
            fn = F[name]
            if t == "window":
                wl, wr = p["window"]

                def compute(self, start, end, _fn=fn, _f0=f0, _k=k0, _wl=wl, _wr=wr, _rec=rec, **kw):
                    _rec(self, kw, start, end)
                    return window_whole(_fn, _f0, kw[_k], _wl, _wr)

                attrs.update(get_window_size=lambda self, _w=(wl, wr): _w, data_kind=kinds[name])
            else:
                gap = p["gap"]

                def compute(self, start, end, _fn=fn, _f0=f0, _k=k0, _g=gap, _rec=rec, **kw):
                    _rec(self, kw, start, end)
                    return group_whole(_fn, _f0, kw[_k], _g)

                attrs.update(get_window_size=lambda self, _w=p.get("window", gap): _w, data_kind=name)
            attrs.update(provides=(name,), dtype=dtype_for(fn), compute=compute)
        elif t == "mwindow":
            # multi-output overlap-window plugin: <name>a = window result per input row (new kind),
            # <name>b = the rows of <name>a with even value (another new kind)
            base = strax.OverlapWindowPlugin
            na, nb = name + "a", name + "b"
            wl, wr = p["window"]

            def compute(self, start, end, _f0=f0, _k=k0, _na=na, _nb=nb, _fa=F[na], _fb=F[nb],
                        _wl=wl, _wr=wr, _rec=rec, **kw):
                _rec(self, kw, start, end)
                a = window_whole(_fa, _f0, kw[_k], _wl, _wr)
                b = a[a[_fa] % 2 == 0]
                return {_na: a, _nb: out_arr(_fb, b["time"], b["endtime"], b[_fa])}

            attrs.update(provides=(na, nb), dtype={na: dtype_for(F[na]), nb: dtype_for(F[nb])},
                         data_kind={na: kinds[na], nb: kinds[nb]}, compute=compute,
                         get_window_size=lambda self, _w=(wl, wr): _w)
        elif t == "down":
            base = strax.DownChunkingPlugin
            pieces = p.get("pieces", 2)
            attrs["rechunk_on_save"] = False
            fn = F[name]

            def compute(self, start, end, _fn=fn, _f0=f0, _k=k0, _pc=pieces, _rec=rec, **kw):
                _rec(self, kw, start, end)
                a = kw[_k]
                out = out_arr(_fn, a["time"], a["endtime"], a[_f0] + 2)
                # legal cut points strictly inside (start, end): between row clusters
                cuts = []
                mx = start
                for i in range(len(a)):
                    if i and a["time"][i] >= mx and start < mx < end:
                        cuts.append((int(mx), i))
                    mx = max(mx, int(a["endtime"][i]))
                cuts = cuts[: _pc - 1]
                lo, li = start, 0
                for c, i in cuts:
                    yield self.chunk(start=lo, end=c, data=out[li:i])
                    lo, li = c, i
                yield self.chunk(start=lo, end=end, data=out[li:])

            attrs.update(provides=(name,), dtype=dtype_for(fn), data_kind=kinds[name], compute=compute)
        elif t == "gather":
            # consumer of several dependencies of the same or of different kinds (C08):
            # output = rows of the first dependency's kind, v = sum of that kind's fields
            fn = F[name]
            first_kind_fields = tuple(F[d] for d in deps if kinds[d] == k0)

            def compute(self, start, end, _fn=fn, _k=k0, _ff=first_kind_fields, _rec=rec, **kw):
                _rec(self, kw, start, end)
                a = kw[_k]
                return out_arr(_fn, a["time"], a["endtime"], sum(a[f] for f in _ff))

            attrs.update(provides=(name,), dtype=dtype_for(fn), data_kind=kinds[name], compute=compute)
        elif t == "exhaust":
            base = strax.ExhaustPlugin
            fn = F[name]

            def compute(self, start, end, _fn=fn, _f0=f0, _k=k0, _rec=rec, **kw):
                _rec(self, kw, start, end)
                a = kw[_k]
                return out_arr(_fn, a["time"], a["endtime"], a[_f0] + 1000 * len(a))

            attrs.update(provides=(name,), dtype=dtype_for(fn), data_kind=kinds[name], compute=compute)
        else:
            raise ValueError(t)
        if t in ("window", "group", "mwindow"):
            def iter_(self, iters, executor=None, _n=name, _base=base):
                for r in _base.iter(self, iters, executor=executor):
                    if isinstance(r, dict):
                        _record({"p": _n, "emit": {k: [c.start, c.end, len(c)] for k, c in r.items()}})
                    elif r is not None and hasattr(r, "start"):
                        _record({"p": _n, "emit": {_n: [r.start, r.end, len(r)]}})
                    yield r

            attrs["iter"] = iter_
        cls = type(p.get("class_name", "P_" + name), (base,), attrs)
        cls = strax.takes_config(*opts)(cls)
        classes.append(cls)
    return classes, config


def window_whole(fn, f0, a, wl, wr):
    v = a[f0].copy()
    t, e = a["time"], a["endtime"]
    for i in range(len(a)):
        before = int(((e > t[i] - wl) & (e <= t[i])).sum())
        after = int(((t < e[i] + wr) & (t >= e[i])).sum())
        v[i] = v[i] + 10 * before + 1000 * after
    return out_arr(fn, t, e, v)


def group_whole(fn, f0, a, gap):
    """One row per maximal group of rows whose successive gaps are < gap (rows disjoint, sorted)."""
    ts, es, vs = [], [], []
    i = 0
    while i < len(a):
        j = i
        while j + 1 < len(a) and a["time"][j + 1] - a["endtime"][j] < gap:
            j += 1
        ts.append(a["time"][i])
        es.append(a["endtime"][j])
        vs.append(int(a[f0][i: j + 1].sum()) * 10 + (j - i + 1))
        i = j + 1
    return out_arr(fn, np.array(ts, dtype=np.int64), np.array(es, dtype=np.int64), np.array(vs, dtype=np.int64))
