"""Generators of small sorted interval arrays (shared by C07, C17 and others)."""
import itertools

import numpy as np


def time_fields():
    import strax

    return strax.time_fields, strax.time_dt_fields


def arr(iv, enc="endtime", extra=None):
    """Structured array from [(start, end), ...] in one of the two end-time encodings.

    enc: 'endtime' | 'dt' (dt=1) | 'dt2' (dt=2, requires even lengths)
    extra: optional list of (name, dtype, values)
    """
    import strax

    extra = extra or []
    if enc == "endtime":
        dt = list(strax.time_fields)
    else:
        dt = list(strax.time_dt_fields)
    dt = dt + [(n, t) for n, t, _ in extra]
    a = np.zeros(len(iv), dtype=dt)
    if len(iv):
        s = np.array([x[0] for x in iv], dtype=np.int64)
        e = np.array([x[1] for x in iv], dtype=np.int64)
        a["time"] = s
        if enc == "endtime":
            a["endtime"] = e
        elif enc == "dt":
            a["dt"] = 1
            a["length"] = e - s
        elif enc == "dt2":
            assert ((e - s) % 2 == 0).all()
            a["dt"] = 2
            a["length"] = (e - s) // 2
        else:
            raise ValueError(enc)
    for n, t, v in extra:
        a[n] = v
    return a


def all_intervals(grid, min_len=1, max_len=None):
    return [
        (s, e)
        for s in range(grid)
        for e in range(s + min_len, grid + 1)
        if max_len is None or e - s <= max_len
    ]


def sorted_lists(n, ivs, disjoint=False, sorted_end=False):
    """All length-n lists of intervals sorted by (start, end) (multisets)."""
    for combo in itertools.combinations_with_replacement(ivs, n):
        # combinations_with_replacement over a sorted pool yields sorted tuples
        if disjoint and any(combo[i][1] > combo[i + 1][0] for i in range(n - 1)):
            continue
        if sorted_end and any(combo[i][1] > combo[i + 1][1] for i in range(n - 1)):
            continue
        yield combo


def time_sorted_lists(n, ivs):
    """All length-n sequences sorted by start only (end order free)."""
    by_start = {}
    for iv in ivs:
        by_start.setdefault(iv[0], []).append(iv)
    for combo in itertools.product(ivs, repeat=n):
        if all(combo[i][0] <= combo[i + 1][0] for i in range(n - 1)):
            yield combo


def random_sorted(rng, n, span, max_len, disjoint=False, sorted_end=False, min_len=1):
    out = []
    t = rng.randint(0, 3)
    last_end = 0
    for _ in range(n):
        if disjoint:
            t = max(t, last_end) + rng.choice([0, 0, 1, 2, span // max(1, n)])
        else:
            t = t + rng.choice([0, 0, 1, 2, 3, span // max(1, n)])
        ln = rng.randint(min_len, max_len)
        e = t + ln
        if sorted_end and out and e < out[-1][1]:
            e = out[-1][1]
            if e <= t:
                e = t + min_len
        out.append((t, e))
        last_end = max(last_end, e)
    return out
