"""Module-level (picklable) harness plugins for the multiprocessing path (ParallelSourcePlugin, forked savers).

Graph: mpsrc (source) -> mprow (parallel='process') -> mpmulti (parallel='process'; outputs mpma, mpmb)
       -> mptop (parallel='process', depends on mpma).  Whole-run semantics mirror vf.harness.plugins:
       mprow: v*3+1 ; mpma: v*5+1 ; mpmb: rows with even v ; mptop: v*3+2.
"""
import numpy as np
import strax
from immutabledict import immutabledict

DT = strax.time_fields + [(("value field v0", "v0"), np.int64)]


def mk(rows):
    a = np.zeros(len(rows), dtype=DT)
    if len(rows):
        a["time"] = [r[0] for r in rows]
        a["endtime"] = [r[1] for r in rows]
        a["v0"] = [r[2] for r in rows]
    return a


@strax.takes_config(strax.Option("mp_rows", default=(), track=True), strax.Option("mp_cuts", default=(), track=False),
                    strax.Option("mp_fault", default=None, track=False), strax.Option("mp_pace", default=None, track=False))
class MpSrc(strax.Plugin):
    provides = "mpsrc"
    depends_on = ()
    dtype = DT
    data_kind = "mpk"
    rechunk_on_save = False

    def source_finished(self):
        return True

    def is_ready(self, chunk_i):
        # mp_pace = {late_chunk, late_by, slow_chunk, slow_by}: a source whose chunk `late_chunk` becomes available
        # late (live data still being written) and whose chunk `slow_chunk` takes long to compute. Timing only.
        pace = self.config["mp_pace"]
        if pace and chunk_i == pace.get("late_chunk"):
            import time
            time.sleep(pace["late_by"])
        return chunk_i < len(self.config["mp_cuts"]) - 1

    def compute(self, chunk_i):
        _arm(self.config["mp_fault"])
        pace = self.config["mp_pace"]
        if pace and chunk_i == pace.get("slow_chunk"):
            import time
            time.sleep(pace["slow_by"])
        cuts = self.config["mp_cuts"]
        a = mk(self.config["mp_rows"])
        lo, hi = cuts[chunk_i], cuts[chunk_i + 1]
        m = (a["time"] >= lo) & (a["endtime"] <= hi)
        if lo == hi:
            m[:] = False
        return self.chunk(start=lo, end=hi, data=a[m])


_FAULT = {"spec": None, "installed": False}


def _fault_hook(event, args):
    """Audit hook of a pool worker PROCESS (armed from MpRow.compute, which runs there before the inlined
    savers of the same task): one injected fault at the write / rename of one chunk file."""
    spec = _FAULT["spec"]
    if not spec:
        return
    if event == "open":
        path, mode = args[0], args[1]
        if not isinstance(path, str) or not mode or not any(c in mode for c in "wxa"):
            return
        op = "open:w"
    elif event == "os.rename":
        path, op = args[0], "os.rename"
        if not isinstance(path, str):
            return
    else:
        return
    import errno
    import os

    base = os.path.basename(path)
    if ("-%06d" % spec["chunk"]) not in base:
        return
    if spec["op"] == "meta":
        # the per-chunk metadata file a forked saver leaves for the parent to collect
        if op != "open:w" or not base.startswith("metadata_" + spec["dtype"] + "-"):
            return
    elif op != spec["op"] or not base.startswith(spec["dtype"] + "-"):
        return
    try:
        os.close(os.open(spec["marker"], os.O_CREAT | os.O_EXCL | os.O_WRONLY))
    except FileExistsError:
        return  # one shot
    if spec["mode"] == "exit":
        os._exit(77)
    raise OSError(errno.EIO, "injected I/O error in a pool worker process")


def _arm(spec):
    import sys

    _FAULT["spec"] = dict(spec) if spec else None
    if spec and not _FAULT["installed"]:
        sys.addaudithook(_fault_hook)
        _FAULT["installed"] = True


class MpInjected(ValueError):
    """Failure injected into a plugin computation that runs in a pool worker process."""


def _maybe_fail(plugin, name, start):
    f = plugin.config.get("mp_fail")
    if f and f["plugin"] == name and f["start"] == start:
        raise MpInjected(f"injected failure in {name} at chunk starting at {start} (pool worker process)")


@strax.takes_config(strax.Option("mp_fault", default=None, track=False), strax.Option("mp_fail", default=None, track=False))
class MpRow(strax.Plugin):
    provides = "mprow"
    depends_on = ("mpsrc",)
    dtype = DT
    data_kind = "mpk"
    parallel = "process"
    rechunk_on_save = False

    def compute(self, mpk, start, end):
        _arm(self.config["mp_fault"])
        _maybe_fail(self, "mprow", start)
        r = mpk.copy()
        r["v0"] = mpk["v0"] * 3 + 1
        return r


@strax.takes_config(strax.Option("mp_fail", default=None, track=False))
class MpMulti(strax.Plugin):
    provides = ("mpma", "mpmb")
    depends_on = ("mprow",)
    dtype = dict(mpma=DT, mpmb=DT)
    data_kind = dict(mpma="mpk", mpmb="mpkb")
    parallel = "process"
    rechunk_on_save = immutabledict(mpma=False, mpmb=False)
    save_when = immutabledict(mpma=strax.SaveWhen.ALWAYS, mpmb=strax.SaveWhen.ALWAYS)

    def compute(self, mpk, start, end):
        _maybe_fail(self, "mpmulti", start)
        a = mpk.copy()
        a["v0"] = mpk["v0"] * 5 + 1
        return dict(mpma=a, mpmb=mpk[mpk["v0"] % 2 == 0])


@strax.takes_config(strax.Option("mp_fail", default=None, track=False))
class MpTop(strax.Plugin):
    provides = "mptop"
    depends_on = ("mpma",)
    dtype = DT
    data_kind = "mpk"
    parallel = "process"
    rechunk_on_save = False

    def compute(self, mpk, start, end):
        _maybe_fail(self, "mptop", start)
        r = mpk.copy()
        r["v0"] = mpk["v0"] * 3 + 2
        return r


class MpSrcP(MpSrc):
    """The source itself runs in the process pool: strax then inlines the whole parallel chain AND the savers
    of its outputs into one ParallelSourcePlugin (chunk files are written by the worker processes)."""
    parallel = "process"


ALL = [MpSrc, MpRow, MpMulti, MpTop]
ALL_INLINE = [MpSrcP, MpRow, MpMulti, MpTop]


def whole_run(rows):
    src = mk(rows)
    row = src.copy()
    row["v0"] = src["v0"] * 3 + 1
    ma = row.copy()
    ma["v0"] = row["v0"] * 5 + 1
    mb = row[row["v0"] % 2 == 0]
    top = ma.copy()
    top["v0"] = ma["v0"] * 3 + 2
    return {"mpsrc": src, "mprow": row, "mpma": ma, "mpmb": mb, "mptop": top}


# ---------------------------------------------------------------- overlap window behind the parallel chain
class MpWin(strax.OverlapWindowPlugin):
    """Per row: number of mprow rows starting within +-WINDOW of its start (needs neighbours across chunk borders).
    OverlapWindowPlugin is stateful and therefore never runs in the pool itself."""
    provides = "mpwin"
    depends_on = ("mprow",)
    dtype = DT
    data_kind = "mpkw"
    rechunk_on_save = False
    WINDOW = 7

    def get_window_size(self):
        return self.WINDOW

    def compute(self, mpk):
        r = mpk.copy()
        t = mpk["time"]
        r["v0"] = [int(((t >= x - self.WINDOW) & (t <= x + self.WINDOW)).sum()) for x in t]
        return r


def whole_run_win(rows):
    row = whole_run(rows)["mprow"]
    r = row.copy()
    t = row["time"]
    r["v0"] = [int(((t >= x - MpWin.WINDOW) & (t <= x + MpWin.WINDOW)).sum()) for x in t]
    return r


ALL_WIN = ALL + [MpWin]
ALL_INLINE_WIN = ALL_INLINE + [MpWin]


# ---------------------------------------------------------------- two inputs of different kinds, joined in the pool
DTB = strax.time_fields + [(("value field v1", "v1"), np.int64)]


def mkb(rows):
    a = np.zeros(len(rows), dtype=DTB)
    if len(rows):
        a["time"] = [r[0] for r in rows]
        a["endtime"] = [r[1] for r in rows]
        a["v1"] = [r[2] for r in rows]
    return a


def _src(name, kind, dt, maker, opt_rows, opt_cuts):
    @strax.takes_config(strax.Option(opt_rows, default=(), track=True), strax.Option(opt_cuts, default=(), track=False))
    class S(strax.Plugin):
        provides = name
        depends_on = ()
        dtype = dt
        data_kind = kind
        rechunk_on_save = False

        def source_finished(self):
            return True

        def is_ready(self, chunk_i):
            return chunk_i < len(self.config[opt_cuts]) - 1

        def compute(self, chunk_i):
            cuts = self.config[opt_cuts]
            a = maker(self.config[opt_rows])
            lo, hi = cuts[chunk_i], cuts[chunk_i + 1]
            m = (a["time"] >= lo) & (a["endtime"] <= hi)
            if lo == hi:
                m[:] = False
            return self.chunk(start=lo, end=hi, data=a[m])

    S.__name__ = S.__qualname__ = "MpJ_" + name
    return S


MpJ_mpja = MpJSrcA = _src("mpja", "mpka", DT, mk, "mpj_rows_a", "mpj_cuts_a")
MpJ_mpjb = MpJSrcB = _src("mpjb", "mpkb", DTB, mkb, "mpj_rows_b", "mpj_cuts_b")


class MpJoin(strax.Plugin):
    """Saved by default, runs in the pool, two inputs of different kinds with independent chunkings: rows of mpja
    with the number of mpjb rows fully inside the interval handed to this call."""
    provides = "mpjoin"
    depends_on = ("mpja", "mpjb")
    dtype = DT
    data_kind = "mpka"
    parallel = "process"
    rechunk_on_save = False

    def compute(self, mpka, mpkb):
        r = mpka.copy()
        r["v0"] = mpka["v0"] * 100 + len(mpkb)
        return r


@strax.takes_config(strax.Option("mpj_log", default="", track=False))
class MpJMulti(strax.Plugin):
    """Two outputs, inlined behind the join; every compute call leaves a line in the call log (one file, O_APPEND:
    it is written from the pool worker processes)."""
    provides = ("mpjx", "mpjy")
    depends_on = ("mpjoin",)
    dtype = dict(mpjx=DT, mpjy=DT)
    data_kind = dict(mpjx="mpka", mpjy="mpky")
    parallel = True
    rechunk_on_save = immutabledict(mpjx=False, mpjy=False)

    def compute(self, mpka, start, end):
        if self.config["mpj_log"]:
            import os

            fd = os.open(self.config["mpj_log"], os.O_WRONLY | os.O_APPEND | os.O_CREAT)
            os.write(fd, f"mpjmulti {start} {end} {len(mpka)}\n".encode())
            os.close(fd)
        x = mpka.copy()
        x["v0"] = mpka["v0"] + 0
        return dict(mpjx=x, mpjy=mpka[mpka["v0"] % 2 == 0])


class MpJDown(strax.Plugin):
    provides = "mpjdown"
    depends_on = ("mpjx",)
    dtype = DT
    data_kind = "mpka"
    parallel = True
    rechunk_on_save = False

    def compute(self, mpka):
        r = mpka.copy()
        r["v0"] = mpka["v0"] + 1
        return r


JOIN = [MpJSrcA, MpJSrcB, MpJoin, MpJMulti, MpJDown]


# ---------------------------------------------------------------- inlining that starts at a plugin WITH a dependency
class MpMultiT(MpMulti):
    """Thread-parallel: inlined behind a process-parallel plugin, but never the plugin the inlining starts from."""
    parallel = True


class MpTopT(MpTop):
    parallel = True


# source outside the pool, mprow (one dependency, data kind 'mpk' != data type 'mpsrc') is the only
# parallel='process' plugin -> strax inlines mprow + mpmulti + mptop and their savers starting from mprow
ALL_ROWSTART = [MpSrc, MpRow, MpMultiT, MpTopT]
ALL_ROWSTART_WIN = ALL_ROWSTART + [MpWin]
