"""Module-level (picklable) harness plugins for the multiprocessing path (ParallelSourcePlugin, forked savers).

Graph: mpsrc (source) -> mprow (parallel='process') -> mpmulti (parallel='process'; outputs mpma, mpmb)
       -> mptop (parallel='process', depends on mpma).  Whole-run semantics mirror vf.harness.plugins:
       mprow: v*3+1 ; mpma: v*5+1 ; mpmb: rows with even v ; mptop: v*3+2.
"""
import numpy as np
import strax
from immutabledict import immutabledict

DT = strax.time_fields + [(("value field v0", "v0"), np.int64)]


def mk(rows):
    a = np.zeros(len(rows), dtype=DT)
    if len(rows):
        a["time"] = [r[0] for r in rows]
        a["endtime"] = [r[1] for r in rows]
        a["v0"] = [r[2] for r in rows]
    return a


@strax.takes_config(strax.Option("mp_rows", default=(), track=True), strax.Option("mp_cuts", default=(), track=False),
                    strax.Option("mp_fault", default=None, track=False))
class MpSrc(strax.Plugin):
    provides = "mpsrc"
    depends_on = ()
    dtype = DT
    data_kind = "mpk"
    rechunk_on_save = False

    def source_finished(self):
        return True

    def is_ready(self, chunk_i):
        return chunk_i < len(self.config["mp_cuts"]) - 1

    def compute(self, chunk_i):
        _arm(self.config["mp_fault"])
        cuts = self.config["mp_cuts"]
        a = mk(self.config["mp_rows"])
        lo, hi = cuts[chunk_i], cuts[chunk_i + 1]
        m = (a["time"] >= lo) & (a["endtime"] <= hi)
        if lo == hi:
            m[:] = False
        return self.chunk(start=lo, end=hi, data=a[m])


_FAULT = {"spec": None, "installed": False}


def _fault_hook(event, args):
    """Audit hook of a pool worker PROCESS (armed from MpRow.compute, which runs there before the inlined
    savers of the same task): one injected fault at the write / rename of one chunk file."""
    spec = _FAULT["spec"]
    if not spec:
        return
    if event == "open":
        path, mode = args[0], args[1]
        if not isinstance(path, str) or not mode or not any(c in mode for c in "wxa"):
            return
        op = "open:w"
    elif event == "os.rename":
        path, op = args[0], "os.rename"
        if not isinstance(path, str):
            return
    else:
        return
    import errno
    import os

    base = os.path.basename(path)
    if ("-%06d" % spec["chunk"]) not in base:
        return
    if spec["op"] == "meta":
        # the per-chunk metadata file a forked saver leaves for the parent to collect
        if op != "open:w" or not base.startswith("metadata_" + spec["dtype"] + "-"):
            return
    elif op != spec["op"] or not base.startswith(spec["dtype"] + "-"):
        return
    try:
        os.close(os.open(spec["marker"], os.O_CREAT | os.O_EXCL | os.O_WRONLY))
    except FileExistsError:
        return  # one shot
    if spec["mode"] == "exit":
        os._exit(77)
    raise OSError(errno.EIO, "injected I/O error in a pool worker process")


def _arm(spec):
    import sys

    _FAULT["spec"] = dict(spec) if spec else None
    if spec and not _FAULT["installed"]:
        sys.addaudithook(_fault_hook)
        _FAULT["installed"] = True


class MpInjected(ValueError):
    """Failure injected into a plugin computation that runs in a pool worker process."""


def _maybe_fail(plugin, name, start):
    f = plugin.config.get("mp_fail")
    if f and f["plugin"] == name and f["start"] == start:
        raise MpInjected(f"injected failure in {name} at chunk starting at {start} (pool worker process)")


@strax.takes_config(strax.Option("mp_fault", default=None, track=False), strax.Option("mp_fail", default=None, track=False))
class MpRow(strax.Plugin):
    provides = "mprow"
    depends_on = ("mpsrc",)
    dtype = DT
    data_kind = "mpk"
    parallel = "process"
    rechunk_on_save = False

    def compute(self, mpk, start, end):
        _arm(self.config["mp_fault"])
        _maybe_fail(self, "mprow", start)
        r = mpk.copy()
        r["v0"] = mpk["v0"] * 3 + 1
        return r


@strax.takes_config(strax.Option("mp_fail", default=None, track=False))
class MpMulti(strax.Plugin):
    provides = ("mpma", "mpmb")
    depends_on = ("mprow",)
    dtype = dict(mpma=DT, mpmb=DT)
    data_kind = dict(mpma="mpk", mpmb="mpkb")
    parallel = "process"
    rechunk_on_save = immutabledict(mpma=False, mpmb=False)
    save_when = immutabledict(mpma=strax.SaveWhen.ALWAYS, mpmb=strax.SaveWhen.ALWAYS)

    def compute(self, mpk, start, end):
        _maybe_fail(self, "mpmulti", start)
        a = mpk.copy()
        a["v0"] = mpk["v0"] * 5 + 1
        return dict(mpma=a, mpmb=mpk[mpk["v0"] % 2 == 0])


@strax.takes_config(strax.Option("mp_fail", default=None, track=False))
class MpTop(strax.Plugin):
    provides = "mptop"
    depends_on = ("mpma",)
    dtype = DT
    data_kind = "mpk"
    parallel = "process"
    rechunk_on_save = False

    def compute(self, mpk, start, end):
        _maybe_fail(self, "mptop", start)
        r = mpk.copy()
        r["v0"] = mpk["v0"] * 3 + 2
        return r


class MpSrcP(MpSrc):
    """The source itself runs in the process pool: strax then inlines the whole parallel chain AND the savers
    of its outputs into one ParallelSourcePlugin (chunk files are written by the worker processes)."""
    parallel = "process"


ALL = [MpSrc, MpRow, MpMulti, MpTop]
ALL_INLINE = [MpSrcP, MpRow, MpMulti, MpTop]


def whole_run(rows):
    src = mk(rows)
    row = src.copy()
    row["v0"] = src["v0"] * 3 + 1
    ma = row.copy()
    ma["v0"] = row["v0"] * 5 + 1
    mb = row[row["v0"] % 2 == 0]
    top = ma.copy()
    top["v0"] = ma["v0"] * 3 + 2
    return {"mpsrc": src, "mprow": row, "mpma": ma, "mpmb": mb, "mptop": top}
