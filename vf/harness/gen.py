"""Seeded generators: rows, law-abiding chunkings, plugin graphs, configurations."""
import random


def gen_disjoint_rows(rng, n, t0, scale=1):
    """Sorted, non-overlapping (possibly touching) rows; values 1..n."""
    rows = []
    t = t0 + rng.choice([0, 0, 1, 2]) * scale
    for i in range(n):
        t += rng.choice([0, 0, 1, 3, 8]) * scale
        ln = rng.choice([1, 2, 4, 9]) * scale
        rows.append((t, t + ln, i + 1))
        t += ln
    return rows, t


def gen_free_rows(rng, n, t0, t1, scale=1):
    """Sorted rows that may overlap / touch, inside [t0, t1]; values 101..."""
    rows = []
    t = t0
    for i in range(n):
        t += rng.choice([0, 0, 1, 2, 5]) * scale
        ln = rng.choice([1, 1, 2, 3]) * scale
        long_row = rng.random() < 0.12
        if long_row:
            # a long row with later, shorter rows nested in it (end times not sorted)
            ln = rng.choice([6, 9]) * scale
        if t + ln > t1:
            break
        rows.append((t, t + ln, 101 + i))
        if rng.random() < (0.2 if long_row else 0.6):
            t += ln
    return rows


def legal_cuts(rows, t0, t1, scale=1):
    return [c for c in range(t0, t1 + 1, scale) if not any(r[0] < c < r[1] for r in rows)]


def gen_cuts(rng, rows, t0, t1, scale=1, max_inner=6, allow_zero=True, allow_trailing_zero=False):
    legal = legal_cuts(rows, t0, t1, scale)
    style = rng.choice(["one", "few", "few", "many", "all"])
    if style == "one":
        inner = []
    elif style == "all":
        inner = [c for c in legal if t0 < c < t1]
    else:
        k = rng.randint(1, max_inner) if style == "few" else rng.randint(max_inner, 2 * max_inner)
        inner = sorted(rng.choices(legal, k=min(k, max(1, len(legal))))) if legal else []
    if not allow_zero:
        inner = sorted(set(c for c in inner if t0 < c < t1))
    cuts = [t0] + list(inner) + [t1]
    if not allow_trailing_zero:
        while len(cuts) > 2 and cuts[-2] == t1:
            cuts.pop(-2)
    return cuts


def cut_features(cuts):
    f = set()
    if any(a == b for a, b in zip(cuts[:-1], cuts[1:])):
        f.add("zero_duration")
    if len(cuts) > 2 and cuts[-2] == cuts[-1]:
        f.add("trailing_zero_duration")
    if len(cuts) > 2 and cuts[0] == cuts[1]:
        f.add("leading_zero_duration")
    return f


def gen_sources(rng, scale=1, two=True, nmax=10):
    t0 = rng.choice([0, 2, 7]) * scale
    ev, end = gen_disjoint_rows(rng, rng.randint(1, nmax), t0, scale)
    t1 = end + rng.choice([0, 2, 6]) * scale
    srcs = [{"name": "ev", "kind": "ev", "rows": ev}]
    if two:
        th = gen_free_rows(rng, rng.randint(0, nmax + 4), t0, t1, scale)
        srcs.append({"name": "th", "kind": "th", "rows": th})
    return srcs, t0, t1


TYPES = ["row", "row", "filter", "multi", "loop", "window", "group", "down", "exhaust"]


def gen_graph(rng, srcs, scale=1, nplugins=None, types=None):
    """Random DAG over the sources. Returns list of plugin specs."""
    info = {}
    per_kind = {}

    def newinfo(name, kind, disjoint, rowset, field="v0"):
        info[name] = {"kind": kind, "disjoint": disjoint, "rowset": rowset, "field": field}

    for s in srcs:
        newinfo(s["name"], s["kind"], s["kind"] == "ev", s["name"])
    plugins = []
    n = nplugins if nplugins is not None else rng.randint(1, 6)
    types = types or TYPES
    k = 0
    tries = 0
    while len(plugins) < n and tries < 100:
        tries += 1
        t = rng.choice(types)
        name = f"p{k}{t[:2]}"
        dts = list(info)
        p = None
        if t == "row":
            d = rng.choice(dts)
            deps = [d]
            if rng.random() < 0.35:
                same = [x for x in dts if x != d and info[x]["kind"] == info[d]["kind"]
                        and info[x]["rowset"] == info[d]["rowset"]]
                rng.shuffle(same)
                for x in same[: rng.randint(1, 2)]:
                    if info[x]["field"] not in [info[y]["field"] for y in deps]:
                        deps.append(x)
            fld = rng.choice(["v0", "v0", "v1", "v2"])
            p = {"name": name, "type": "row", "deps": deps, "c": rng.randint(1, 5), "field": fld}
            newinfo(name, info[d]["kind"], info[d]["disjoint"], info[d]["rowset"], fld)
        elif t == "filter":
            d = rng.choice(dts)
            p = {"name": name, "type": "filter", "deps": [d], "m": rng.choice([2, 3]), "r": rng.choice([0, 1])}
            newinfo(name, name, info[d]["disjoint"], name)
        elif t == "multi":
            d = rng.choice(dts)
            p = {"name": name, "type": "multi", "deps": [d]}
            newinfo(name + "a", info[d]["kind"], info[d]["disjoint"], info[d]["rowset"])
            newinfo(name + "b", name + "b", info[d]["disjoint"], name + "b")
        elif t == "loop":
            bases = [x for x in dts if info[x]["disjoint"]]
            if not bases:
                continue
            b = rng.choice(bases)
            things = [x for x in dts if info[x]["kind"] != info[b]["kind"]]
            if not things:
                continue
            p = {"name": name, "type": "loop", "deps": [b, rng.choice(things)]}
            newinfo(name, info[b]["kind"], True, info[b]["rowset"])
        elif t == "window":
            ds = [x for x in dts if info[x]["disjoint"]]
            if not ds:
                continue
            d = rng.choice(ds)
            w = rng.choice([(0, 0), (1, 1), (5, 5), (10, 3), (0, 7), (3, 0), (20, 20)])
            p = {"name": name, "type": "window", "deps": [d], "window": [w[0] * scale, w[1] * scale]}
            newinfo(name, info[d]["kind"], True, info[d]["rowset"])
        elif t == "group":
            ds = [x for x in dts if info[x]["disjoint"]]
            if not ds:
                continue
            d = rng.choice(ds)
            p = {"name": name, "type": "group", "deps": [d], "gap": rng.choice([1, 2, 4]) * scale}
            newinfo(name, name, True, name)
        elif t == "down":
            d = rng.choice(dts)
            p = {"name": name, "type": "down", "deps": [d], "pieces": rng.choice([2, 3])}
            newinfo(name, info[d]["kind"], info[d]["disjoint"], info[d]["rowset"])
        elif t == "exhaust":
            d = rng.choice(dts)
            p = {"name": name, "type": "exhaust", "deps": [d]}
            newinfo(name, info[d]["kind"], info[d]["disjoint"], info[d]["rowset"])
        if p is None:
            continue
        p["save_when"] = rng.choice(["ALWAYS", "ALWAYS", "TARGET", "EXPLICIT", "NEVER"]) if t != "multi" else \
            {name + "a": rng.choice(["ALWAYS", "TARGET", "EXPLICIT"]), name + "b": rng.choice(["ALWAYS", "TARGET", "NEVER"])}
        if t not in ("down",):
            p["rechunk_on_save"] = rng.random() < 0.6 if t != "multi" else \
                {name + "a": rng.random() < 0.6, name + "b": rng.random() < 0.6}
        if rng.random() < 0.5:
            p["chunk_target_size_mb"] = rng.choice([24e-6 * 1 + 12e-6, 24e-6 * 3 + 12e-6, 24e-6 * 8, 200])
        plugins.append(p)
        k += 1
    return plugins


def fix_group_windows(spec, oracle_out):
    """group plugins need window >= longest group span + gap (window-locality)."""
    for p in spec["plugins"]:
        if p["type"] == "group":
            a = oracle_out[p["name"]]
            span = int((a["endtime"] - a["time"]).max()) if len(a) else 0
            p["window"] = span + p["gap"] + 1


def gen_config(rng, n_chunks_max, chain_only=False):
    proc = rng.choice(["single_thread", "threaded_mailbox", "threaded_mailbox"])
    cfg = {"processor": proc, "allow_lazy": rng.random() < 0.5, "allow_rechunk": rng.random() < 0.6,
           "max_workers": rng.choice([None, None, 1, 2, 4]) if proc == "threaded_mailbox" else None}
    big = 3 * n_chunks_max + 8
    cfg["max_messages"] = rng.choice([big, big + 5, 2 * big]) if not chain_only else rng.choice([1, 2, 3, 4, big])
    return cfg


def all_types(spec):
    out = [s["name"] for s in spec["sources"]]
    for p in spec["plugins"]:
        out += [p["name"] + "a", p["name"] + "b"] if p["type"] in ("multi", "mwindow") else [p["name"]]
    return out


def rng_for(seed, *salt):
    return random.Random(f"{seed}:" + ":".join(map(str, salt)))
