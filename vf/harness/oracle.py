"""Whole-run oracle: each plugin's computation applied to whole, unchunked arrays."""
import numpy as np

from vf.harness import plugins as hp


def whole_run(spec):
    """Return {data_type: structured array} for every data type in the spec."""
    out = {}
    F = hp.fields_of(spec)
    for s in spec["sources"]:
        out[s["name"]] = hp.mkarr(F[s["name"]], s["rows"])
    for p in spec["plugins"]:
        n, t, deps = p["name"], p["type"], p["deps"]
        a = out[deps[0]]
        f0 = F[deps[0]]
        if t == "row":
            for dd in deps[1:]:
                assert len(out[dd]) == len(a), "same-kind deps must be row-aligned"
            assert len({F[dd] for dd in deps}) == len(deps), "merged deps need distinct fields"
            v = sum((i + 2) * out[dd][F[dd]] for i, dd in enumerate(deps)) * 3 + p.get("c", 1)
            out[n] = hp.out_arr(F[n], a["time"], a["endtime"], v)
        elif t == "filter":
            b = a[a[f0] % p.get("m", 2) != p.get("r", 0)]
            out[n] = hp.out_arr(F[n], b["time"], b["endtime"], b[f0] + 1)
        elif t == "multi":
            out[n + "a"] = hp.out_arr(F[n + "a"], a["time"], a["endtime"], a[f0] * 5 + 1)
            b = a[a[f0] % 2 == 0]
            out[n + "b"] = hp.out_arr(F[n + "b"], b["time"], b["endtime"], b[f0])
        elif t == "loop":
            th = out[deps[1]]
            ft = F[deps[1]]
            v = np.zeros(len(a), dtype=np.int64)
            for i in range(len(a)):
                m = (th["time"] >= a["time"][i]) & (th["endtime"] <= a["endtime"][i])
                v[i] = int(a[f0][i]) * 100 + int(th[ft][m].sum()) + 7 * int(m.sum())
            out[n] = hp.out_arr(F[n], a["time"], a["endtime"], v)
        elif t == "window":
            out[n] = hp.window_whole(F[n], f0, a, *p["window"])
        elif t == "group":
            out[n] = hp.group_whole(F[n], f0, a, p["gap"])
        elif t == "mwindow":
            wa = hp.window_whole(F[n + "a"], f0, a, *p["window"])
            out[n + "a"] = wa
            b = wa[wa[F[n + "a"]] % 2 == 0]
            out[n + "b"] = hp.out_arr(F[n + "b"], b["time"], b["endtime"], b[F[n + "a"]])
        elif t == "down":
            out[n] = hp.out_arr(F[n], a["time"], a["endtime"], a[f0] + 2)
        elif t == "exhaust":
            out[n] = hp.out_arr(F[n], a["time"], a["endtime"], a[f0] + 1000 * len(a))
        elif t == "gather":
            kinds = hp.kinds_of(spec)
            same = [dd for dd in deps if kinds[dd] == kinds[deps[0]]]
            out[n] = hp.out_arr(F[n], a["time"], a["endtime"], sum(out[dd][F[dd]] for dd in same))
        else:
            raise ValueError(t)
    return out


def run_range(spec):
    """[t0, t1) of the run = common range of all sources."""
    s = spec["sources"][0]
    return s["cuts"][0], s["cuts"][-1]


def rows_equal(got, want):
    return got.dtype == want.dtype and len(got) == len(want) and got.tobytes() == want.tobytes()


def check_chunks(chunks, want, t0, t1):
    """Oracle for a yielded chunk sequence: rows, tiling, containment. Returns list of errors."""
    errs = []
    if not chunks:
        return ["no chunks yielded"]
    got = np.concatenate([c.data for c in chunks])
    if got.dtype != want.dtype:
        errs.append(f"dtype {got.dtype} != {want.dtype}")
    elif not rows_equal(got, want):
        errs.append(f"rows differ from the whole-run result: got {got.tolist()} want {want.tolist()}"[:600])
    if chunks[0].start != t0 or chunks[-1].end != t1:
        errs.append(f"chunks span [{chunks[0].start},{chunks[-1].end}) but the run is [{t0},{t1})")
    for a, b in zip(chunks[:-1], chunks[1:]):
        if a.end != b.start:
            errs.append(f"chunks not contiguous: {a.end} then {b.start}")
            break
    for c in chunks:
        if len(c.data):
            if c.data["time"].min() < c.start or c.data["endtime"].max() > c.end:
                errs.append(f"row outside its chunk [{c.start},{c.end})")
                break
    return errs
