"""Cooperative deterministic scheduler + stand-ins for threading / futures.

The real strax code runs on real OS threads, but a thread only runs while it holds the
*baton*; every synchronisation operation of the shim objects (lock acquire/release,
condition wait/notify, thread start/exit/join, future completion/result, executor
submit) is a *scheduling point* at which a chooser picks the next runnable thread. A
run is therefore a deterministic function of the chooser's decisions, which are
recorded (replayable) and hashed (distinct interleavings are counted).

Virtual time: waits with a timeout get a virtual deadline; the clock advances only
when no thread is runnable, to the earliest deadline, whose waiter then times out.
Hence a correct run ends with clock == 0, a lost wake-up shows up as clock > 0 (and a
strax timeout exception) independent of machine load, and "nobody runnable, no
deadline" is a deadlock, reported with who waits on what.

One routine (_dispatch) takes the decision both when a thread blocks and when a thread
exits; on deadlock every parked thread is released and unwinds (Abort), the harness
thread gets Deadlock.
"""
import hashlib
import itertools
import random
import threading as _rt


class Deadlock(BaseException):
    pass


class Abort(BaseException):
    pass


class T:
    __slots__ = ("tid", "name", "state", "sem", "deadline", "timedout", "on", "is_main", "prio")

    def __init__(self, tid, name, is_main=False):
        self.tid = tid
        self.name = name
        self.state = "run"  # run | block | done
        self.sem = _rt.Semaphore(0)
        self.deadline = None
        self.timedout = False
        self.on = None
        self.is_main = is_main
        self.prio = 0


class Sched:
    def __init__(self, chooser=None, seed=0, max_steps=200000):
        self.chooser = chooser or RandomChooser(seed)
        self.threads = {}
        self.ids = itertools.count()
        self.clock = 0.0
        self.steps = 0
        self.trace = []       # (thread name, reason)
        self.choices = []     # index chosen among candidates at each decision with > 1 candidate
        self.dead = False
        self.deadlock_info = None
        self.tls = _rt.local()
        self.idle_hook = None  # called when nobody is runnable; may wake a thread (quiescence probes)
        self.point_hook = None  # called at every scheduling point (invariant checks)
        self.max_steps = max_steps
        self.timeouts_fired = 0
        self.real_threads = []
        self.quiescent = False

    # ---------------------------------------------------------------- registry
    def register_main(self, name="main"):
        t = T(next(self.ids), name, is_main=True)
        self.threads[t.tid] = t
        self.tls.t = t
        return t

    def me(self):
        return getattr(self.tls, "t", None)

    def runnable(self):
        return [t for t in self.threads.values() if t.state == "run"]

    # ---------------------------------------------------------------- the one decision routine
    def _dispatch(self, me, reason):
        """me gives up the baton (it may itself stay runnable). Returns when me holds it again."""
        if self.dead:
            return
        while True:
            cands = self.runnable()
            if cands:
                break
            if self.idle_hook is not None and self.idle_hook(self):
                continue
            timed = [t for t in self.threads.values() if t.state == "block" and t.deadline is not None]
            if timed:
                t = min(timed, key=lambda x: (x.deadline, x.tid))
                self.clock = max(self.clock, t.deadline)
                t.state = "run"
                t.timedout = True
                t.deadline = None
                self.timeouts_fired += 1
                continue
            # deadlock: nobody runnable, nobody with a deadline
            self.dead = True
            self.deadlock_info = {t.name: t.on for t in self.threads.values() if t.state == "block"}
            self.trace.append(("DEADLOCK", str(self.deadlock_info)))
            for t in self.threads.values():
                if t is not me and t.state != "done":
                    t.sem.release()
            if me is not None and me.state != "done":
                raise Deadlock(str(self.deadlock_info)) if me.is_main else Abort()
            return
        self.steps += 1
        if self.steps > self.max_steps:
            self.dead = True
            self.deadlock_info = {"livelock": f"more than {self.max_steps} scheduling steps"}
            for t in self.threads.values():
                if t is not me and t.state != "done":
                    t.sem.release()
            if me is not None and me.state != "done":
                raise Deadlock("step budget exceeded") if me.is_main else Abort()
            return
        cands.sort(key=lambda x: x.tid)
        if len(cands) == 1:
            nxt = cands[0]
        else:
            i = self.chooser.choose(self, cands, me, reason)
            self.choices.append(i)
            nxt = cands[i]
        self.trace.append((nxt.name, reason))
        if self.point_hook is not None:
            self.point_hook(self, reason)
        if nxt is me:
            return
        nxt.sem.release()
        if me is not None and me.state != "done":
            me.sem.acquire()
            if self.dead:
                raise Deadlock(str(self.deadlock_info)) if me.is_main else Abort()

    # ---------------------------------------------------------------- operations used by the shims
    def yield_point(self, reason="yield"):
        me = self.me()
        if me is None or self.dead:
            return
        self._dispatch(me, reason)

    def block(self, on, timeout=None):
        """Block the current thread. Returns True if woken, False if the (virtual) timeout fired."""
        me = self.me()
        if me is None or self.dead:
            raise Abort()
        me.state = "block"
        me.on = on
        me.timedout = False
        me.deadline = None if timeout is None else self.clock + max(0.0, timeout)
        self._dispatch(me, "block:" + str(on))
        me.on = None
        return not me.timedout

    def wake(self, t):
        if t.state == "block":
            t.state = "run"
            t.deadline = None

    def spawn(self, name, target):
        """Create a controlled thread (runnable, parked until scheduled)."""
        t = T(next(self.ids), name)
        self.threads[t.tid] = t
        sched = self

        def body():
            sched.tls.t = t
            t.sem.acquire()
            try:
                if not sched.dead:
                    target()
            except (Abort, Deadlock):
                pass
            finally:
                t.state = "done"
                if not sched.dead:
                    for o in sched.threads.values():
                        if o.state == "block" and o.on == ("join", t.tid):
                            sched.wake(o)
                    try:
                        sched._dispatch(t, "exit")
                    except (Abort, Deadlock):
                        pass

        real = _rt.Thread(target=body, name=name, daemon=True)
        self.real_threads.append(real)
        real.start()
        return t

    # ---------------------------------------------------------------- quiescence probes (C13)
    def park(self):
        """Block the calling (harness) thread until no other thread is runnable. Instead of firing virtual
        timeouts, the scheduler then wakes the parked thread: the system has come to rest."""
        me = self.me()

        def hook(s):
            if me.state == "block" and me.on == "parked":
                s.quiescent = True
                s.wake(me)
                return True
            return False

        self.idle_hook = hook
        self.block("parked")
        self.idle_hook = None

    def abort(self):
        """End the run: every controlled thread is released and unwinds with Abort."""
        self.dead = True
        for t in self.threads.values():
            if t.state != "done" and not t.is_main:
                t.sem.release()

    def join_real(self, timeout=5.0):
        import time as _time

        deadline = _time.time() + timeout
        for r in self.real_threads:
            r.join(max(0.0, deadline - _time.time()))
        return [r.name for r in self.real_threads if r.is_alive()]

    def signature(self):
        h = hashlib.sha1()
        for name, reason in self.trace:
            h.update(f"{name}|{reason};".encode())
        return h.hexdigest()[:16]

    def all_done(self):
        return [t.name for t in self.threads.values() if not t.is_main and t.state != "done"]


# -------------------------------------------------------------------- choosers
class RandomChooser:
    def __init__(self, seed):
        self.rng = random.Random(seed)

    def choose(self, sched, cands, me, reason):
        return self.rng.randrange(len(cands))


class PCTChooser:
    """PCT-like: random static priorities, d priority change points at random steps."""

    def __init__(self, seed, depth=3, horizon=400):
        self.rng = random.Random(seed)
        self.change = sorted(self.rng.randrange(horizon) for _ in range(depth))
        self.prio = {}
        self.low = 0

    def choose(self, sched, cands, me, reason):
        for t in cands:
            if t.tid not in self.prio:
                self.prio[t.tid] = self.rng.random() + 1
        if self.change and sched.steps >= self.change[0] and me is not None and me.tid in self.prio:
            self.change.pop(0)
            self.low -= 1
            self.prio[me.tid] = self.low
        best = max(range(len(cands)), key=lambda i: self.prio[cands[i].tid])
        return best


class ReplayChooser:
    def __init__(self, choices, then=None):
        self.choices = list(choices)
        self.i = 0
        self.then = then

    def choose(self, sched, cands, me, reason):
        if self.i < len(self.choices):
            c = self.choices[self.i]
            self.i += 1
            return min(c, len(cands) - 1)
        self.i += 1
        if self.then is not None:
            return self.then.choose(sched, cands, me, reason)
        return default_choice(cands, me)


def default_choice(cands, me):
    """Non-preemptive default: keep running the current thread if it is runnable, else lowest tid."""
    if me is not None:
        for i, t in enumerate(cands):
            if t is me:
                return i
    return 0


class PlanChooser:
    """Follows the non-preemptive default except at the decision indices in plan {index: choice}.
    Records the number of candidates at every decision (for systematic exploration)."""

    def __init__(self, plan):
        self.plan = dict(plan)
        self.i = 0
        self.widths = []
        self.defaults = []

    def choose(self, sched, cands, me, reason):
        d = default_choice(cands, me)
        self.widths.append(len(cands))
        self.defaults.append(d)
        c = self.plan.get(self.i, d)
        self.i += 1
        return min(c, len(cands) - 1)


class NamedPriorityChooser:
    """Adversarial orders: prefer threads whose name matches earlier entries of `order`."""

    def __init__(self, order, seed=0):
        self.order = order
        self.rng = random.Random(seed)

    def rank(self, t):
        for i, key in enumerate(self.order):
            if key in t.name:
                return i
        return len(self.order)

    def choose(self, sched, cands, me, reason):
        best = min(range(len(cands)), key=lambda i: (self.rank(cands[i]), cands[i].tid))
        return best


def explore_plans(run, max_deviations=1, budget=2000):
    """Systematic exploration: run(plan) -> PlanChooser after the run. Yields nothing; calls run for the
    default schedule and for every schedule that deviates from the non-preemptive default at up to
    max_deviations decisions (breadth first), within budget. Returns number of runs."""
    seen = 0
    frontier = [dict()]
    done = set()
    for depth in range(max_deviations + 1):
        nxt = []
        for plan in frontier:
            key = tuple(sorted(plan.items()))
            if key in done:
                continue
            done.add(key)
            if seen >= budget:
                return seen
            ch = run(plan)
            seen += 1
            if ch is None or depth == max_deviations:
                continue
            last = max(plan) if plan else -1
            for i in range(last + 1, len(ch.widths)):
                for alt in range(ch.widths[i]):
                    if alt != ch.defaults[i]:
                        p2 = dict(plan)
                        p2[i] = alt
                        nxt.append(p2)
        frontier = nxt
    return seen


# -------------------------------------------------------------------- shims
S = None  # the scheduler of the run in progress (set by activate)


def activate(sched):
    global S
    S = sched


class RLock:
    def __init__(self):
        self.owner = None
        self.count = 0
        self.waiters = []

    def acquire(self, blocking=True, timeout=-1):
        s = S
        me = s.me()
        if me is None or s.dead:
            return True
        s.yield_point("acquire")
        while self.owner is not None and self.owner is not me:
            self.waiters.append(me)
            s.block(("lock", id(self)))
            if me in self.waiters:
                self.waiters.remove(me)
        self.owner = me
        self.count += 1
        return True

    def release(self):
        s = S
        me = s.me()
        if me is None or s.dead:
            return
        if self.owner is not me:
            raise RuntimeError("cannot release un-acquired lock")
        self.count -= 1
        if self.count == 0:
            self.owner = None
            for t in self.waiters:
                s.wake(t)
            self.waiters = []
            s.yield_point("release")

    __enter__ = acquire

    def __exit__(self, *a):
        self.release()

    def locked(self):
        return self.owner is not None

    def __repr__(self):
        return f"<CoopRLock owner={getattr(self.owner, 'name', None)} count={self.count}>"

    # used by Condition
    def _release_save(self):
        c = self.count
        self.count = 0
        self.owner = None
        for t in self.waiters:
            S.wake(t)
        self.waiters = []
        return c

    def _acquire_restore(self, c):
        s = S
        me = s.me()
        while self.owner is not None and self.owner is not me:
            self.waiters.append(me)
            s.block(("lock", id(self)))
            if me in self.waiters:
                self.waiters.remove(me)
        self.owner = me
        self.count = c


Lock = RLock


class Condition:
    def __init__(self, lock=None):
        self._lock = lock if lock is not None else RLock()
        self.waiters = []
        self.acquire = self._lock.acquire
        self.release = self._lock.release

    def __enter__(self):
        return self._lock.__enter__()

    def __exit__(self, *a):
        return self._lock.__exit__(*a)

    def wait(self, timeout=None):
        s = S
        me = s.me()
        if me is None or s.dead:
            raise Abort()
        if self._lock.owner is not me:
            raise RuntimeError("cannot wait on un-acquired lock")
        c = self._lock._release_save()
        self.waiters.append(me)
        try:
            ok = s.block(("cond", id(self)), timeout)
        finally:
            if me in self.waiters:
                self.waiters.remove(me)
        self._lock._acquire_restore(c)
        return ok

    def wait_for(self, predicate, timeout=None):
        # CPython's loop, on the virtual clock
        endtime = None
        waittime = timeout
        result = predicate()
        while not result:
            if waittime is not None:
                if endtime is None:
                    endtime = S.clock + waittime
                else:
                    waittime = endtime - S.clock
                    if waittime <= 0:
                        break
            self.wait(waittime)
            result = predicate()
        return result

    def notify(self, n=1):
        if S.dead:
            return
        for t in self.waiters[:n]:
            S.wake(t)
        self.waiters = self.waiters[n:]

    def notify_all(self):
        self.notify(len(self.waiters))


class Thread:
    def __init__(self, group=None, target=None, name=None, args=(), kwargs=None, daemon=None):
        self._target = target
        self.name = name or "Thread"
        self._args = args
        self._kwargs = kwargs or {}
        self.t = None
        self.exc = None
        self.daemon = daemon

    def run(self):
        if self._target is not None:
            self._target(*self._args, **self._kwargs)

    def start(self):
        s = S

        def body():
            try:
                self.run()
            except (Abort, Deadlock):
                raise
            except BaseException as e:  # noqa: BLE001  (like threading: the thread dies, others go on)
                self.exc = e

        self.t = s.spawn(self.name, body)
        s.yield_point("start")

    def is_alive(self):
        return self.t is not None and self.t.state != "done"

    def join(self, timeout=None):
        s = S
        if s.dead:
            return
        while self.is_alive():
            if not s.block(("join", self.t.tid), timeout):
                return


class Event:
    def __init__(self):
        self._c = Condition(RLock())
        self._f = False

    def is_set(self):
        return self._f

    def set(self):
        with self._c:
            self._f = True
            self._c.notify_all()

    def clear(self):
        self._f = False

    def wait(self, timeout=None):
        with self._c:
            if not self._f:
                self._c.wait(timeout)
            return self._f


class ThreadingShim:
    """Stands in for the `threading` module inside strax modules."""

    RLock = RLock
    Lock = Lock
    Condition = Condition
    Thread = Thread
    Event = Event

    @staticmethod
    def enumerate():
        return []

    @staticmethod
    def current_thread():
        return _rt.current_thread()

    @staticmethod
    def get_ident():
        return _rt.get_ident()


class FutureTimeout(Exception):
    pass


class Future:
    """Cooperative stand-in for concurrent.futures.Future."""

    def __init__(self):
        self._done = False
        self._running = False
        self._result = None
        self._exc = None
        self._waiters = []
        self._callbacks = []

    def done(self):
        return self._done

    def running(self):
        return self._running and not self._done

    def cancelled(self):
        return False

    def set_result(self, r):
        self._result = r
        self._finish()

    def set_exception(self, e):
        self._exc = e
        self._finish()

    def _finish(self):
        self._done = True
        for t in self._waiters:
            S.wake(t)
        self._waiters = []
        for cb in self._callbacks:
            cb(self)
        S.yield_point("future-done")

    def add_done_callback(self, cb):
        if self._done:
            cb(self)
        else:
            self._callbacks.append(cb)

    def cancel(self):
        return False

    def exception(self, timeout=None):
        self._wait(timeout)
        return self._exc

    def _wait(self, timeout):
        s = S
        me = s.me()
        while not self._done:
            if me is None or s.dead:
                raise Abort()
            self._waiters.append(me)
            ok = s.block(("future", id(self)), timeout)
            if me in self._waiters:
                self._waiters.remove(me)
            if not ok and not self._done:
                raise FutureTimeout()

    def result(self, timeout=None):
        self._wait(timeout)
        if self._exc is not None:
            raise self._exc
        return self._result


class Executor:
    """Cooperative ThreadPoolExecutor: max_workers controlled worker threads pulling from a queue."""

    def __init__(self, max_workers=2, **kw):
        self.max_workers = max_workers or 2
        self.queue = []
        self.cond = Condition(RLock())
        self.shut = False
        self.workers = []

    def _worker(self):
        while True:
            with self.cond:
                while not self.queue and not self.shut:
                    self.cond.wait()
                if not self.queue:
                    return
                fut, fn, a, k = self.queue.pop(0)
                fut._running = True
            try:
                r = fn(*a, **k)
            except (Abort, Deadlock):
                raise
            except BaseException as e:  # noqa: BLE001
                fut.set_exception(e)
            else:
                fut.set_result(r)

    def submit(self, fn, *a, **k):
        fut = Future()
        with self.cond:
            if self.shut:
                raise RuntimeError("cannot schedule new futures after shutdown")
            self.queue.append((fut, fn, a, k))
            if len(self.workers) < self.max_workers:
                w = Thread(target=self._worker, name=f"pool-{len(self.workers)}")
                self.workers.append(w)
                w.start()
            self.cond.notify()
        return fut

    def map(self, fn, *iterables, timeout=None, chunksize=1):
        """Like concurrent.futures.Executor.map: all calls are submitted at once, results come back in order."""
        futs = [self.submit(fn, *args) for args in zip(*iterables)]

        def results():
            for f in futs:
                yield f.result(timeout)

        return results()

    def shutdown(self, wait=True, **kw):
        with self.cond:
            self.shut = True
            self.cond.notify_all()
        if wait:
            for w in self.workers:
                w.join()


def wait(fs, timeout=None, return_when=None):
    """Stand-in for concurrent.futures.wait (ALL_COMPLETED)."""
    fs = list(fs)
    not_done = set()
    for f in fs:
        try:
            f._wait(timeout)
        except FutureTimeout:
            not_done.add(f)
    return {f for f in fs if f not in not_done}, not_done


class FuturesShim:
    """Stands in for the `concurrent.futures` module (the `futures` name in strax modules)."""

    ThreadPoolExecutor = Executor
    ProcessPoolExecutor = Executor
    Future = Future
    TimeoutError = FutureTimeout
    wait = staticmethod(wait)
    ALL_COMPLETED = "ALL_COMPLETED"
