"""Attach the cooperative stand-ins to the strax modules that create threads, pools and futures."""
import contextlib

from vf.sched import coop


@contextlib.contextmanager
def coop_pipeline(sched):
    """strax.mailbox, the threaded processor and the savers run on cooperative primitives."""
    import strax.mailbox as smb
    import strax.processors.threaded_mailbox as tmb
    import strax.storage.common as sc

    saved = (smb.threading, smb.Future, smb.TimeoutError, tmb.futures, sc.wait)
    coop.activate(sched)
    smb.threading = coop.ThreadingShim
    smb.Future = coop.Future
    smb.TimeoutError = coop.FutureTimeout
    tmb.futures = coop.FuturesShim
    sc.wait = coop.wait
    try:
        yield
    finally:
        smb.threading, smb.Future, smb.TimeoutError, tmb.futures, sc.wait = saved


def attachment_points():
    """Names that must exist for the shims to have any effect (a refactoring that renames them would
    silently detach the scheduler: checks count scheduling points and treat zero as inconclusive)."""
    import strax.mailbox as smb
    import strax.processors.threaded_mailbox as tmb
    import strax.storage.common as sc

    return all([hasattr(smb, "threading"), hasattr(smb, "Future"), hasattr(tmb, "futures"), hasattr(sc, "wait")])
